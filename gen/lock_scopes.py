#!/usr/bin/env python3
"""Translator for C15: clang AST of src/rime/deployer.cc and src/rime/service.cc
-> coq/Gen/LockScopes.v.

For every member function of rime::Deployer and rime::Service that has a body
(out-of-line definitions and the inline ones in the class, constructors and
destructors excluded: they run before/after any concurrency), list in source
order
  * each access to a data member of the object (`this->x`): read or written,
  * each call of a member function of Deployer/Service,
together with the set of mutexes held at that point, i.e. the
`std::lock_guard` / `std::unique_lock` / `std::scoped_lock` variables declared
earlier in an enclosing compound statement.  Lambda bodies are walked with an
empty lock set (they run later, on another stack).

Classification of an access is syntactic and closed: assignment targets,
`++/--` and a fixed list of mutating methods are writes; a fixed list of
observers are reads; anything else is `AUnknown` (the model then refuses the
table: Sched.table_ok is false, the race-freedom theorem does not check).
Prints what it matched when run as a program.
"""
import os
import re
import sys

HERE = os.path.dirname(os.path.abspath(__file__))
sys.path.insert(0, os.path.join(os.path.dirname(HERE), "lib"))
sys.path.insert(0, HERE)
import vlib  # noqa: E402
from copy_sites import clang_ast  # noqa: E402

CLASSES = {"Deployer": "src/rime/deployer.cc", "Service": "src/rime/service.cc"}
MUTATORS = {"push", "pop", "clear", "erase", "insert", "emplace", "operator=", "reset", "swap", "get", "connect",
            "operator[]", "push_back", "pop_front", "emplace_back", "release", "lock", "unlock"}
OBSERVERS = {"empty", "front", "back", "size", "find", "end", "begin", "valid", "wait_for", "wait", "c_str", "count",
             "operator()", "operator bool", "operator/", "operator->", "operator*", "cbegin", "cend", "length", "string"}
LOCK_TYPES = re.compile(r"\bstd::(lock_guard|unique_lock|scoped_lock)<")
PASS = ("ImplicitCastExpr", "ParenExpr", "ExprWithCleanups", "CXXBindTemporaryExpr", "MaterializeTemporaryExpr",
        "ConstantExpr", "CXXFunctionalCastExpr", "CStyleCastExpr", "CXXStaticCastExpr")


def strip(n):
    while n.get("kind") in PASS and n.get("inner"):
        n = n["inner"][0]
    return n


def class_of_type(qt):
    qt = (qt or "").replace("const ", "").replace("&", "").replace("*", "").strip()
    for c in CLASSES:
        if qt in (c, "rime::" + c):
            return c
    return None


class Fn:
    def __init__(self, cls, name, fields):
        self.cls, self.name, self.fields, self.rows = cls, name, fields, []

    def emit(self, var, kind, locks):
        self.rows.append((var, kind, tuple(sorted(locks))))

    def is_this_field(self, n):
        """n is MemberExpr `this->f` (f a data member, possibly of a base class)."""
        if n.get("kind") != "MemberExpr" or not n.get("inner"):
            return False
        b = strip(n["inner"][0])
        if b.get("kind") != "CXXThisExpr":
            return False
        return n.get("type", {}).get("qualType") != "<bound member function type>"

    def qual(self, n):
        # data member: qualify by the class that declares it when known, else by the object's class
        return "%s::%s" % (self.fields.get(n.get("referencedMemberDecl"), self.cls), n.get("name"))

    def walk(self, n, locks, ctx="read"):
        k = n.get("kind")
        if k in PASS:
            for c in n.get("inner", []) or []:
                self.walk(c, locks, ctx)
            return
        if k == "CompoundStmt":
            cur = list(locks)
            for c in n.get("inner", []) or []:
                got = self.lock_decl(c)
                if got is not None:
                    cur = cur + got
                    continue
                self.walk(c, cur)
            return
        if k == "LambdaExpr":
            body = [c for c in n.get("inner", []) or [] if c.get("kind") == "CompoundStmt"]
            for b in body[-1:]:
                self.walk(b, [])
            return
        if k == "MemberExpr":
            if self.is_this_field(n):
                cls = class_of_type(n.get("type", {}).get("qualType"))
                if ctx[0:1] == ("callon",) and cls:
                    # member function of an embedded Deployer/Service object: a call row, the object itself is not data
                    self.emit("%s::%s" % (cls, ctx[1]), "ACall", locks)
                    return
                kind = {"read": "ARead", "write": "AWrite"}.get(ctx)
                if kind is None:
                    m = ctx[1]
                    kind = "AWrite" if m in MUTATORS else ("ARead" if m in OBSERVERS else "AUnknown")
                if n.get("type", {}).get("qualType") in ("std::mutex", "std::recursive_mutex"):
                    kind = "AUnknown"   # a mutex used outside a recognised guard declaration
                self.emit(self.qual(n), kind, locks)
                return
            b = strip(n["inner"][0]) if n.get("inner") else {}
            if b.get("kind") == "CXXThisExpr":
                # this->method (bound member function): handled by the enclosing call
                return
            for c in n.get("inner", []) or []:
                self.walk(c, locks, "read")
            return
        if k == "CXXMemberCallExpr":
            callee = strip(n["inner"][0])
            args = n["inner"][1:]
            if callee.get("kind") == "MemberExpr":
                obj = strip(callee["inner"][0]) if callee.get("inner") else {}
                m = callee.get("name", "?")
                if obj.get("kind") == "CXXThisExpr":
                    self.emit("%s::%s" % (self.cls, m), "ACall", locks)
                else:
                    self.walk(callee["inner"][0], locks, ("callon", m))
            else:
                self.walk(n["inner"][0], locks)
            for a in args:
                self.walk(a, locks)
            return
        if k == "CXXOperatorCallExpr":
            inner = n.get("inner", [])
            op = strip(inner[0]).get("referencedDecl", {}).get("name", "?") if inner else "?"
            if len(inner) > 1:
                self.walk(inner[1], locks, ("callon", op))
            for a in inner[2:]:
                self.walk(a, locks)
            return
        if k in ("BinaryOperator", "CompoundAssignOperator") and (n.get("opcode") == "=" or k == "CompoundAssignOperator"):
            lhs, rhs = n["inner"]
            self.walk(lhs, locks, "write")
            self.walk(rhs, locks)
            return
        if k == "UnaryOperator" and n.get("opcode") in ("++", "--"):
            self.walk(n["inner"][0], locks, "write")
            return
        for c in n.get("inner", []) or []:
            self.walk(c, locks)

    def lock_decl(self, stmt):
        """a `std::lock_guard<std::mutex> l(mutex_);` statement -> [qualified mutex names]; else None"""
        if stmt.get("kind") != "DeclStmt":
            return None
        out = []
        for v in stmt.get("inner", []) or []:
            if v.get("kind") == "VarDecl" and LOCK_TYPES.search(v.get("type", {}).get("qualType", "")):
                found = [x for x in walk_all(v) if x.get("kind") == "MemberExpr" and self.is_this_field(x)
                         and "mutex" in x.get("type", {}).get("qualType", "")]
                if not found:
                    out.append("UNRECOGNISED_MUTEX")
                out += [self.qual(x) for x in found]
        return out or None

    # an access made with ctx ("callon", m): m decides
    def __repr__(self):
        return "%s::%s %r" % (self.cls, self.name, self.rows)


def walk_all(n):
    yield n
    for c in n.get("inner", []) or []:
        yield from walk_all(c)


def methods_of(objs, cls):
    """(name, decl) for every method of class `cls` with a body; field id -> declaring class"""
    rec_ids, fields, out = set(), {}, []
    for o in objs:
        if o.get("kind") == "CXXRecordDecl" and o.get("name") == cls and o.get("inner"):
            rec_ids.add(o["id"])
            for c in o["inner"]:
                if c.get("kind") == "FieldDecl":
                    fields[c["id"]] = cls
                if c.get("kind") == "CXXMethodDecl" and any(x.get("kind") == "CompoundStmt" for x in c.get("inner", []) or []):
                    out.append((c["name"], c))
    for o in objs:
        if o.get("kind") == "CXXMethodDecl" and any(x.get("kind") == "CompoundStmt" for x in o.get("inner", []) or []):
            if o.get("parentDeclContextId") in rec_ids or not o.get("parentDeclContextId"):
                if (o["name"], o) not in out:
                    out.append((o["name"], o))
    return out, fields


def extract():
    table, seen = [], []
    for cls, rel in CLASSES.items():
        objs = clang_ast(os.path.join(vlib.REPO, rel), cls)
        ms, fields = methods_of(objs, cls)
        done = set()
        for name, decl in ms:
            if decl.get("id") in done:
                continue
            done.add(decl.get("id"))
            fn = Fn(cls, name, fields)
            for b in decl.get("inner", []):
                if b.get("kind") == "CompoundStmt":
                    fn.walk(b, [])
            seen.append("%s::%s" % (cls, name))
            for var, kind, locks in fn.rows:
                table.append(("%s::%s" % (cls, name), var, kind, locks))
    return table, seen


def generate():
    table, seen = extract()
    q = lambda s: '"%s"' % s
    lines = ["(* GENERATED by /verif/gen/lock_scopes.py from %s/src/rime/{deployer,service}.cc (clang AST) - do not edit *)" % vlib.REPO,
             "From Coq Require Import List String.", "From RimeV Require Import Dep.Sched.",
             "Import ListNotations.", "Local Open Scope string_scope.", "",
             "Definition lock_scopes : list acc_row := ["]
    items = []
    for fn, var, kind, locks in table:
        items.append("  {| a_fn := %s; a_var := %s; a_kind := %s; a_locks := [%s] |}" % (q(fn), q(var), kind, "; ".join(q(l) for l in locks)))
    lines.append(";\n".join(items))
    lines.append("].")
    lines.append("")
    lines.append("Definition analysed_functions : list string := [%s]." % "; ".join(q(s) for s in seen))
    vlib.write_if_changed(os.path.join(vlib.COQ, "Gen", "LockScopes.v"), "\n".join(lines) + "\n")
    return table, seen


if __name__ == "__main__":
    t, seen = generate()
    for fn, var, kind, locks in t:
        print("%-36s %-36s %-8s %s" % (fn, var, kind, ",".join(locks) or "-"))
    print("functions:", " ".join(seen))
