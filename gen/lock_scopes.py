#!/usr/bin/env python3
"""Translator for C15: clang AST of src/rime/deployer.cc and src/rime/service.cc
-> coq/Gen/LockScopes.v.

For every member function of rime::Deployer and rime::Service that has a body
(out-of-line definitions and the inline ones in the class, constructors and
destructors excluded: they run before/after any concurrency), list in source
order
  * each access to a data member of the object (`this->x`): read or written,
  * each call of a member function of Deployer/Service,
together with the set of mutexes held at that point, i.e. the
`std::lock_guard` / `std::unique_lock` / `std::scoped_lock` variables declared
earlier in an enclosing compound statement.  Lambda bodies are walked with an
empty lock set (they run later, on another stack).

Classification of an access is syntactic and closed: assignment targets,
`++/--` and a fixed list of mutating methods are writes; a fixed list of
observers are reads; anything else is `AUnknown` (the model then refuses the
table: Sched.table_ok is false, the race-freedom theorem does not check).
Prints what it matched when run as a program.
"""
import os
import re
import sys

HERE = os.path.dirname(os.path.abspath(__file__))
sys.path.insert(0, os.path.join(os.path.dirname(HERE), "lib"))
sys.path.insert(0, HERE)
import vlib  # noqa: E402
from copy_sites import clang_ast  # noqa: E402

CLASSES = {"Deployer": "src/rime/deployer.cc", "Service": "src/rime/service.cc"}
MUTATORS = {"push", "pop", "clear", "erase", "insert", "emplace", "operator=", "reset", "swap", "get", "connect",
            "operator[]", "push_back", "pop_front", "emplace_back", "release", "lock", "unlock"}
OBSERVERS = {"empty", "front", "back", "size", "find", "end", "begin", "valid", "wait_for", "wait", "c_str", "count",
             "operator()", "operator bool", "operator/", "operator->", "operator*", "cbegin", "cend", "length", "string"}
LOCK_TYPES = re.compile(r"\bstd::(lock_guard|unique_lock|scoped_lock)<")
PASS = ("ImplicitCastExpr", "ParenExpr", "ExprWithCleanups", "CXXBindTemporaryExpr", "MaterializeTemporaryExpr",
        "ConstantExpr", "CXXFunctionalCastExpr", "CStyleCastExpr", "CXXStaticCastExpr")


def strip(n):
    while n.get("kind") in PASS and n.get("inner"):
        n = n["inner"][0]
    return n


def class_of_type(qt):
    qt = (qt or "").replace("const ", "").replace("&", "").replace("*", "").strip()
    for c in CLASSES:
        if qt in (c, "rime::" + c):
            return c
    return None


class Fn:
    def __init__(self, cls, name, fields):
        self.cls, self.name, self.fields, self.rows = cls, name, fields, []

    def emit(self, var, kind, locks):
        self.rows.append((var, kind, tuple(sorted(locks))))

    def is_this_field(self, n):
        """n is MemberExpr `this->f` (f a data member, possibly of a base class)."""
        if n.get("kind") != "MemberExpr" or not n.get("inner"):
            return False
        b = strip(n["inner"][0])
        if b.get("kind") != "CXXThisExpr":
            return False
        return n.get("type", {}).get("qualType") != "<bound member function type>"

    def qual(self, n):
        # data member: qualify by the class that declares it when known, else by the object's class
        return "%s::%s" % (self.fields.get(n.get("referencedMemberDecl"), self.cls), n.get("name"))

    def walk(self, n, locks, ctx="read"):
        k = n.get("kind")
        if k in PASS:
            for c in n.get("inner", []) or []:
                self.walk(c, locks, ctx)
            return
        if k == "CompoundStmt":
            cur = list(locks)
            for c in n.get("inner", []) or []:
                got = self.lock_decl(c)
                if got is not None:
                    cur = cur + got
                    continue
                self.walk(c, cur)
            return
        if k == "LambdaExpr":
            body = [c for c in n.get("inner", []) or [] if c.get("kind") == "CompoundStmt"]
            for b in body[-1:]:
                self.walk(b, [])
            return
        if k == "MemberExpr":
            if self.is_this_field(n):
                cls = class_of_type(n.get("type", {}).get("qualType"))
                if ctx[0:1] == ("callon",) and cls:
                    # member function of an embedded Deployer/Service object: a call row, the object itself is not data
                    self.emit("%s::%s" % (cls, ctx[1]), "ACall", locks)
                    return
                kind = {"read": "ARead", "write": "AWrite"}.get(ctx)
                if kind is None:
                    m = ctx[1]
                    kind = "AWrite" if m in MUTATORS else ("ARead" if m in OBSERVERS else "AUnknown")
                if n.get("type", {}).get("qualType") in ("std::mutex", "std::recursive_mutex"):
                    kind = "AUnknown"   # a mutex used outside a recognised guard declaration
                self.emit(self.qual(n), kind, locks)
                return
            b = strip(n["inner"][0]) if n.get("inner") else {}
            if b.get("kind") == "CXXThisExpr":
                # this->method (bound member function): handled by the enclosing call
                return
            for c in n.get("inner", []) or []:
                self.walk(c, locks, "read")
            return
        if k == "CXXMemberCallExpr":
            callee = strip(n["inner"][0])
            args = n["inner"][1:]
            if callee.get("kind") == "MemberExpr":
                obj = strip(callee["inner"][0]) if callee.get("inner") else {}
                m = callee.get("name", "?")
                if obj.get("kind") == "CXXThisExpr":
                    self.emit("%s::%s" % (self.cls, m), "ACall", locks)
                else:
                    self.walk(callee["inner"][0], locks, ("callon", m))
            else:
                self.walk(n["inner"][0], locks)
            for a in args:
                self.walk(a, locks)
            return
        if k == "CXXOperatorCallExpr":
            inner = n.get("inner", [])
            op = strip(inner[0]).get("referencedDecl", {}).get("name", "?") if inner else "?"
            if len(inner) > 1:
                self.walk(inner[1], locks, ("callon", op))
            for a in inner[2:]:
                self.walk(a, locks)
            return
        if k in ("BinaryOperator", "CompoundAssignOperator") and (n.get("opcode") == "=" or k == "CompoundAssignOperator"):
            lhs, rhs = n["inner"]
            self.walk(lhs, locks, "write")
            self.walk(rhs, locks)
            return
        if k == "UnaryOperator" and n.get("opcode") in ("++", "--"):
            self.walk(n["inner"][0], locks, "write")
            return
        for c in n.get("inner", []) or []:
            self.walk(c, locks)

    def lock_decl(self, stmt):
        """a `std::lock_guard<std::mutex> l(mutex_);` statement -> [qualified mutex names]; else None"""
        if stmt.get("kind") != "DeclStmt":
            return None
        out = []
        for v in stmt.get("inner", []) or []:
            if v.get("kind") == "VarDecl" and LOCK_TYPES.search(v.get("type", {}).get("qualType", "")):
                found = [x for x in walk_all(v) if x.get("kind") == "MemberExpr" and self.is_this_field(x)
                         and "mutex" in x.get("type", {}).get("qualType", "")]
                if not found:
                    out.append("UNRECOGNISED_MUTEX")
                out += [self.qual(x) for x in found]
        return out or None

    # an access made with ctx ("callon", m): m decides
    def __repr__(self):
        return "%s::%s %r" % (self.cls, self.name, self.rows)


def walk_all(n):
    yield n
    for c in n.get("inner", []) or []:
        yield from walk_all(c)


def methods_of(objs, cls):
    """(name, decl) for every method of class `cls` with a body; field id -> declaring class"""
    rec_ids, fields, out = set(), {}, []
    for o in objs:
        if o.get("kind") == "CXXRecordDecl" and o.get("name") == cls and o.get("inner"):
            rec_ids.add(o["id"])
            for c in o["inner"]:
                if c.get("kind") == "FieldDecl":
                    fields[c["id"]] = cls
                if c.get("kind") == "CXXMethodDecl" and any(x.get("kind") == "CompoundStmt" for x in c.get("inner", []) or []):
                    out.append((c["name"], c))
    for o in objs:
        if o.get("kind") == "CXXMethodDecl" and any(x.get("kind") == "CompoundStmt" for x in o.get("inner", []) or []):
            if o.get("parentDeclContextId") in rec_ids or not o.get("parentDeclContextId"):
                if (o["name"], o) not in out:
                    out.append((o["name"], o))
    return out, fields


def extract():
    table, seen = [], []
    for cls, rel in CLASSES.items():
        objs = clang_ast(os.path.join(vlib.REPO, rel), cls)
        ms, fields = methods_of(objs, cls)
        done = set()
        for name, decl in ms:
            if decl.get("id") in done:
                continue
            done.add(decl.get("id"))
            fn = Fn(cls, name, fields)
            for b in decl.get("inner", []):
                if b.get("kind") == "CompoundStmt":
                    fn.walk(b, [])
            seen.append("%s::%s" % (cls, name))
            for var, kind, locks in fn.rows:
                table.append(("%s::%s" % (cls, name), var, kind, locks))
    return table, seen


# ---------------------------------------------------------------------------
# The StartWork/Run hand-over: which of the two shapes the model knows does the source have?
# The statement skeleton of Deployer::Run, ::FinishWork and ::StartWork (clang AST; hook macros and
# LOG statements dropped, everything else printed: control structure, lock guards, calls, operands)
# must be EXACTLY one of the two skeletons below, else the fact is HUnrecognised and no theorem of
# Properties_C15.v about the hand-over is claimed.
def _mentions(n, pred):
    return any(pred(x) for x in walk_all(n))


_CONTROL = ("CompoundStmt", "IfStmt", "DoStmt", "WhileStmt", "ForStmt", "CXXTryStmt", "CXXCatchStmt", "ReturnStmt", "DeclStmt")


def _is_noise(n):
    """a statement that is a RIME_VERIF_* hook macro (`do { if (hook) hook(..); } while (0)`) or a glog
    LOG(...) expression statement"""
    def hook(x):
        return x.get("kind") == "DeclRefExpr" and x.get("referencedDecl", {}).get("name", "").startswith("rime_verif_")

    def glog(x):
        return "LogMessage" in x.get("type", {}).get("qualType", "")
    k = n.get("kind")
    if k == "DoStmt":
        inner = n.get("inner", []) or []
        cond = strip(inner[1]) if len(inner) > 1 else {}
        return cond.get("kind") == "IntegerLiteral" and str(cond.get("value")) == "0" and _mentions(inner[0], hook)
    if k in _CONTROL:
        return False
    return _mentions(n, glog)


def skel(n):
    n = strip(n)
    k = n.get("kind")
    inner = n.get("inner", []) or []
    if k == "CompoundStmt":
        return "{" + ";".join(skel(c) for c in inner if not _is_noise(c)) + "}"
    if k == "DeclStmt":
        out = []
        for v in inner:
            if v.get("kind") == "VarDecl" and LOCK_TYPES.search(v.get("type", {}).get("qualType", "")):
                ms = [x.get("name") for x in walk_all(v) if x.get("kind") == "MemberExpr" and "mutex" in x.get("type", {}).get("qualType", "")]
                out.append("lock(%s)" % ",".join(ms))
            elif v.get("kind") == "VarDecl":
                init = [c for c in v.get("inner", []) or []]
                out.append("var %s=%s" % (v.get("name"), ",".join(skel(c) for c in init)))
            else:
                out.append("<%s>" % v.get("kind"))
        return ",".join(out)
    if k == "IfStmt":
        parts = [skel(c) for c in inner]
        return "if(" + parts[0] + ")" + parts[1] + ("else" + parts[2] if len(parts) > 2 else "") + ("".join("?" + x for x in parts[3:]))
    if k == "DoStmt":
        return "do" + skel(inner[0]) + "while(" + skel(inner[1]) + ")"
    if k in ("WhileStmt", "ForStmt"):
        return k[:-4].lower() + "(" + ",".join(skel(c) for c in inner[:-1] if c) + ")" + skel(inner[-1])
    if k == "ReturnStmt":
        return "return " + ",".join(skel(c) for c in inner)
    if k == "CXXTryStmt":
        return "try" + "".join(skel(c) for c in inner)
    if k == "CXXCatchStmt":
        body = [c for c in inner if c.get("kind") == "CompoundStmt"]
        var = [c for c in inner if c.get("kind") == "VarDecl"]
        return "catch(%s)" % (var[0].get("type", {}).get("qualType", "?") if var else "...") + "".join(skel(c) for c in body)
    if k == "CXXThrowExpr":
        return "throw " + ",".join(skel(c) for c in inner)
    if k == "MemberExpr":
        b = strip(inner[0]) if inner else {}
        if b.get("kind") == "CXXThisExpr":
            return n.get("name", "?")
        return skel(b) + "." + n.get("name", "?")
    if k in ("CXXMemberCallExpr", "CallExpr"):
        return skel(inner[0]) + "(" + ",".join(skel(a) for a in inner[1:]) + ")"
    if k == "CXXOperatorCallExpr":
        op = strip(inner[0]).get("referencedDecl", {}).get("name", "?")
        return op + "(" + ",".join(skel(a) for a in inner[1:]) + ")"
    if k == "UnaryOperator":
        return n.get("opcode", "?") + skel(inner[0])
    if k in ("BinaryOperator", "CompoundAssignOperator"):
        return "(" + skel(inner[0]) + n.get("opcode", "?") + skel(inner[1]) + ")"
    if k == "ConditionalOperator":
        return "(" + skel(inner[0]) + "?" + skel(inner[1]) + ":" + skel(inner[2]) + ")"
    if k == "CXXBoolLiteralExpr":
        return "true" if n.get("value") else "false"
    if k in ("IntegerLiteral", "StringLiteral"):
        return str(n.get("value"))
    if k == "DeclRefExpr":
        return n.get("referencedDecl", {}).get("name", "?")
    if k == "CXXThisExpr":
        return "this"
    if k == "LambdaExpr":
        body = [c for c in inner if c.get("kind") == "CompoundStmt"]
        return "lambda" + "".join(skel(b) for b in body[-1:])
    if k in ("CXXConstructExpr", "CXXTemporaryObjectExpr"):
        return "ctor(" + ",".join(skel(a) for a in inner) + ")"
    if k == "NullStmt":
        return ""
    return "<%s>(" % k + ",".join(skel(c) for c in inner) + ")"


HANDOVER_FUNCTIONS = ("Run", "FinishWork", "StartWork")
SKELETONS = {
    "HFuture": {
        "Run": ('{operator()(message_sink_,ctor("deploy",<CXXDefaultArgExpr>()),ctor("start",<CXXDefaultArgExpr>()));'
            'var success=0;var failure=0;do{while(var task=NextTask(),task.operator bool()){try{if(operator->(tas'
            'k).Run(this))++successelse++failure}catch(const std::exception &){++failure}};operator()(message_sin'
            'k_,ctor("deploy",<CXXDefaultArgExpr>()),ctor((!failure?"success":"failure"),<CXXDefaultArgExpr>()))}'
            'while(HasPendingTasks());return !failure}'),
        "FinishWork": None,
        "StartWork": ('{if(IsWorking()){return false};(maintenance_mode_=maintenance_mode);if(pending_tasks_.empty()){retur'
            'n false};operator=(work_,async(async,lambda{Run()}));return work_.valid()}'),
    },
    "HFlag": {
        "Run": ('{operator()(message_sink_,ctor("deploy",<CXXDefaultArgExpr>()),ctor("start",<CXXDefaultArgExpr>()));'
            'var success=0;var failure=0;do{while(var task=NextTask(),task.operator bool()){try{if(operator->(tas'
            'k).Run(this))++successelse++failure}catch(const std::exception &){++failure}};operator()(message_sin'
            'k_,ctor("deploy",<CXXDefaultArgExpr>()),ctor((!failure?"success":"failure"),<CXXDefaultArgExpr>()))}'
            'while(!FinishWork());return !failure}'),
        "FinishWork": ('{lock(mutex_);if(!pending_tasks_.empty())return false;(running_=false);return true}'),
        "StartWork": ('{var num_tasks=0;{lock(mutex_);if(running_){return false};(maintenance_mode_=maintenance_mode);if(pe'
            'nding_tasks_.empty()){return false};(num_tasks=pending_tasks_.size());(running_=true)};if(work_.vali'
            'd())work_.wait();operator=(work_,async(async,lambda{try{Run()}catch(...){lock(mutex_);(running_=fals'
            'e);throw }}));return work_.valid()}'),
    },
}


def handover_skeletons():
    objs = clang_ast(os.path.join(vlib.REPO, CLASSES["Deployer"]), "Deployer")
    ms, _ = methods_of(objs, "Deployer")
    out, done = {}, set()
    for name, decl in ms:
        if name in HANDOVER_FUNCTIONS and decl.get("id") not in done:
            done.add(decl.get("id"))
            for b in decl.get("inner", []):
                if b.get("kind") == "CompoundStmt":
                    out[name] = skel(b) if name not in out else out[name] + "|" + skel(b)
    return out


def handover_fact(sk=None):
    sk = handover_skeletons() if sk is None else sk
    for fact, want in SKELETONS.items():
        if all(sk.get(f) == want[f] for f in HANDOVER_FUNCTIONS):
            return fact, sk
    return "HUnrecognised", sk


def generate():
    table, seen = extract()
    fact, sk = handover_fact()
    q = lambda s: '"%s"' % s
    lines = ["(* GENERATED by /verif/gen/lock_scopes.py from %s/src/rime/{deployer,service}.cc (clang AST) - do not edit *)" % vlib.REPO,
             "From Coq Require Import List String.", "From RimeV Require Import Dep.Sched.",
             "Import ListNotations.", "Local Open Scope string_scope.", "",
             "Definition lock_scopes : list acc_row := ["]
    items = []
    for fn, var, kind, locks in table:
        items.append("  {| a_fn := %s; a_var := %s; a_kind := %s; a_locks := [%s] |}" % (q(fn), q(var), kind, "; ".join(q(l) for l in locks)))
    lines.append(";\n".join(items))
    lines.append("].")
    lines.append("")
    lines.append("Definition analysed_functions : list string := [%s]." % "; ".join(q(s) for s in seen))
    lines.append("")
    lines.append("(* the StartWork/Run hand-over recognised from the statement skeletons of Deployer::Run, ::FinishWork, ::StartWork *)")
    lines.append("Definition handover_fact : handover := %s." % fact)
    lines.append("Definition handover_skeletons : list (string * string) := [%s]." % "; ".join(
        "(%s, %s)" % (q(f), q((sk.get(f) or "").replace('"', '""'))) for f in HANDOVER_FUNCTIONS))
    vlib.write_if_changed(os.path.join(vlib.COQ, "Gen", "LockScopes.v"), "\n".join(lines) + "\n")
    return table, seen


if __name__ == "__main__":
    t, seen = generate()
    f, sk = handover_fact()
    print("handover:", f)
    for k2 in HANDOVER_FUNCTIONS:
        print("  %-10s %s" % (k2, sk.get(k2)))
    for fn, var, kind, locks in t:
        print("%-36s %-36s %-8s %s" % (fn, var, kind, ",".join(locks) or "-"))
    print("functions:", " ".join(seen))
