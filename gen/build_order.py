#!/usr/bin/env python3
"""Translator for C13: narrow lexical extraction from the *current* source of

  dict/table.cc   Table::Build (+ member helpers it calls, one level deep and deeper)
  dict/prism.cc   Prism::Build
  dict/reverse_lookup_dictionary.cc  ReverseDb::Build
      -> the order of the statements that store into the metadata, in particular
         whether `strncpy(metadata->format, ...)` is the last store before the
         final `return true;` and whether anything else touches `format`
  dict/dict_compiler.cc (and every other file under src/ that calls such a Build)
      -> does X.Remove() precede X.Build(...) at every call site
  dict/mapped_file.cc / .h
      -> Create() on an existing file: resize in place?  Allocate: memset?
         OpenReadOnly: guarded against a mapping failure?
  lever/deployment_tasks.cc WorkspaceUpdate::Run
      -> is var/last_build_time written once, after the schema loop
  config/config_data.cc ConfigData::SaveToFile, config/save_output_plugin.cc SaveOutputPlugin::ReviewLinkOutput
      -> written in place or to a temporary name followed by rename()

into coq/Gen/BuildOrder.v (`facts : build_facts`).  Shapes that are not
recognised become SUnknown / SaveUnknown / false, which makes the theorems of
Properties_C13.v fail; nothing is guessed.  Prints what it matched.
"""
import os
import re
import sys

HERE = os.path.dirname(os.path.abspath(__file__))
sys.path.insert(0, os.path.join(os.path.dirname(HERE), "lib"))
import vlib  # noqa: E402


def strip_comments(src):
    src = re.sub(r"/\*.*?\*/", lambda m: " " * len(m.group(0)), src, flags=re.S)
    src = re.sub(r"//[^\n]*", "", src)
    # drop `#if 0 ... #endif` blocks
    src = re.sub(r"(?ms)^#if 0\b.*?^#endif[^\n]*$", "", src)
    return src


def read(rel):
    return strip_comments(open(os.path.join(vlib.REPO, "src", "rime", rel)).read())


def body_of(src, header_re):
    """text between the braces of the first function definition whose header matches"""
    m = re.search(header_re + r"[^;{]*\{", src)
    if not m:
        return None
    i = m.end()
    depth = 1
    j = i
    while j < len(src) and depth:
        c = src[j]
        if c == "{":
            depth += 1
        elif c == "}":
            depth -= 1
        elif c == '"':
            j += 1
            while j < len(src) and src[j] != '"':
                j += 2 if src[j] == "\\" else 1
        j += 1
    return src[i:j - 1] if depth == 0 else None


META = r"metadata_?"


def events_of(cls, src, fn, seen):
    """ordered events of Class::fn, inlining member helpers defined in the same file"""
    if fn in seen or len(seen) > 12:
        return [("SUnknown", "recursion:" + fn)]
    body = body_of(src, r"\b%s::%s\s*\(" % (cls, fn))
    if body is None:
        return None
    helpers = set(re.findall(r"\b%s::(\w+)\s*\(" % cls, src)) - {fn, cls}
    evs = []
    pats = [
        ("create", r"\bCreate\s*\("),
        ("allocmeta", r"\bAllocate<\s*(?:\w+::)?Metadata\s*>\s*\("),
        ("tag", r"strncpy\s*\(\s*%s->format\b" % META),
        ("field", r"%s->(\w+(?:\.\w+)*)\s*=(?!=)" % META),
        ("copyto", r"CopyString\s*\([^;]*?&\s*%s->(\w+)" % META),
        ("rettrue", r"\breturn\s+true\s*;"),
        ("fmt", r"%s->format\b|\bformat\s*\[" % META),
        ("memwr", r"\b(?:memcpy|memset|strcpy|memmove|sprintf|snprintf)\s*\(\s*(?:\(\s*\w+\s*\*\s*\)\s*)?&?\s*%s\b" % META),
        ("call", r"(?<![\w:.>])(\w+)\s*\("),
    ]
    found = []
    for kind, pat in pats:
        for m in re.finditer(pat, body):
            found.append((m.start(), kind, m))
    found.sort(key=lambda x: (x[0], 0 if x[1] != "call" else 1))
    tag_spans = [(m.start(), m.end()) for _, k, m in found if k == "tag"]
    used = set()
    for pos, kind, m in found:
        if kind == "create":
            evs.append(("SCreate", None))
        elif kind == "allocmeta":
            evs.append(("SAllocMeta", None))
        elif kind == "tag":
            evs.append(("STag", None))
        elif kind == "field":
            name = m.group(1)
            if name.split(".")[0] == "format":
                evs.append(("SUnknown", "assignment to format"))
            else:
                evs.append(("SField", name))
        elif kind == "copyto":
            evs.append(("SField", m.group(1)))
        elif kind == "rettrue":
            evs.append(("SRetTrue", None))
        elif kind == "fmt":
            if not any(a <= pos < b for a, b in tag_spans):
                evs.append(("SUnknown", "other use of format"))
        elif kind == "memwr":
            evs.append(("SUnknown", "raw memory write into metadata"))
        elif kind == "call":
            name = m.group(1)
            if name in helpers and (pos, name) not in used:
                used.add((pos, name))
                sub = events_of(cls, src, name, seen | {fn})
                if sub is None:
                    evs.append(("SUnknown", "helper without body:" + name))
                else:
                    # a helper's own `return true` is not the builder's
                    evs += [e for e in sub if e[0] != "SRetTrue"]
    return evs


def normalise(evs):
    """keep only the builder's final `return true` (earlier ones would be early exits: refuse)"""
    if evs is None:
        return [("SUnknown", "function not found")]
    out = []
    rets = [i for i, e in enumerate(evs) if e[0] == "SRetTrue"]
    for i, e in enumerate(evs):
        if e[0] == "SRetTrue" and i != len(evs) - 1:
            out.append(("SUnknown", "return true before the end"))
        else:
            out.append(e)
    if not rets or rets[-1] != len(evs) - 1:
        out.append(("SUnknown", "does not end with return true"))
    return out


def call_sites():
    """every `X->Build(...dict_file_checksum...)` / `X.Build(...)` under src/: preceded by X.Remove()?"""
    res = {"table": [], "prism": [], "reverse": []}
    root = os.path.join(vlib.REPO, "src")
    for dp, dn, fns in os.walk(root):
        for fn in sorted(fns):
            if not fn.endswith((".cc", ".h")):
                continue
            src = strip_comments(open(os.path.join(dp, fn)).read())
            for m in re.finditer(r"(\w+)\s*(->|\.)\s*Build\s*\(([^;]*?)\)\s*(?:\|\||\)|;)", src, flags=re.S):
                var, args = m.group(1), m.group(3)
                if "dict_file_checksum" not in args:
                    continue
                low = var.lower()
                kind = "reverse" if "reverse" in low or low.startswith("rev") else "prism" if "prism" in low else \
                    "table" if "table" in low else None
                before = src[:m.start()]
                # innermost enclosing function start: last line beginning a definition at column 0
                f0 = max(before.rfind("\n}\n"), 0)
                scope = before[f0:]
                rm = [x.end() for x in re.finditer(r"\b%s\s*(?:->|\.)\s*Remove\s*\(\s*\)\s*;" % re.escape(var), scope)]
                ok = False
                if rm:
                    between = scope[rm[-1]:]
                    # nothing may re-create or reassign the object between Remove and Build
                    ok = not re.search(r"\b%s\s*(?:->|\.)\s*(?:Build|Save|Load|Create)\s*\(|\b%s\s*=[^=]" % (re.escape(var), re.escape(var)), between)
                rel = os.path.relpath(os.path.join(dp, fn), root)
                line = src.count("\n", 0, m.start()) + 1
                (res[kind] if kind else res.setdefault("unknown", [])).append((rel, line, var, ok))
    return res


def mapped_file_facts():
    cc = read("dict/mapped_file.cc")
    hh = read("dict/mapped_file.h")
    create = body_of(cc, r"\bMappedFile::Create\s*\(") or ""
    m = re.search(r"if\s*\(\s*Exists\s*\(\s*\)\s*\)\s*\{(.*?)\}\s*else\s*\{(.*?)\n  \}", create, flags=re.S)
    resizes = None
    if m:
        then, els = m.group(1), m.group(2)
        if re.search(r"\bResize\s*\(", then) and not re.search(r"\bRemove\s*\(|trunc", then) and "trunc" in els:
            resizes = True
        elif re.search(r"\bRemove\s*\(|trunc", then):
            resizes = False
    alloc = body_of(hh, r"\bMappedFile::Allocate\s*\(") or ""
    zeroes = bool(re.search(r"memset\s*\(\s*ptr\s*,\s*0\s*,\s*required_space\s*\)", alloc))
    ro = body_of(cc, r"\bMappedFile::OpenReadOnly\s*\(") or ""
    guarded = bool(re.search(r"\btry\s*\{[^}]*new\s+MappedFileImpl[^}]*\}\s*catch\s*\([^)]*\)\s*\{[^}]*return\s+false", ro, flags=re.S))
    return resizes, zeroes, guarded


def save_mode():
    """how a compiled config reaches its final name: ConfigData::SaveToFile itself, or SaveOutputPlugin around it"""
    cd = read("config/config_data.cc")
    b = body_of(cd, r"\bConfigData::SaveToFile\s*\(")
    if b is None:
        return "SaveUnknown", "SaveToFile not found"
    opens = re.findall(r"std::ofstream\s+\w+\s*\(\s*(\w+)\s*\.c_str\s*\(\s*\)", b)
    if len(opens) != 1:
        return "SaveUnknown", "ofstream openings: %r" % opens
    if opens[0] != "file_path":
        tmp = opens[0]
        ren = re.search(r"\brename\s*\(\s*%s\s*,\s*file_path\b" % re.escape(tmp), b)
        close = re.search(r"\.close\s*\(\s*\)|\}\s*std::error_code", b)
        if ren and close and b.find("SaveToStream") < ren.start() and re.search(r"\b%s\s*\+=|\b%s\s*\(\s*file_path" % (tmp, tmp), b):
            return "TempRename", "SaveToFile: ofstream on %s, closed, then rename(%s, file_path)" % (tmp, tmp)
        return "SaveUnknown", "SaveToFile: temporary %s without the close/rename shape" % tmp
    # SaveToFile writes in place: the plugin that saves compiled configs may do the write-then-rename
    sp = read("config/save_output_plugin.cc")
    pb = body_of(sp, r"\bSaveOutputPlugin::ReviewLinkOutput\s*\(")
    if pb is None:
        return "SaveUnknown", "SaveOutputPlugin::ReviewLinkOutput not found"
    if re.search(r"->\s*SaveToFileAtomically\s*\(\s*file_path\s*\)", pb) and not re.search(r"->\s*SaveToFile\s*\(", pb):
        # the write-then-rename is a method of ConfigData
        ab = body_of(cd, r"\bConfigData::SaveToFileAtomically\s*\(")
        if ab is None:
            return "SaveUnknown", "ConfigData::SaveToFileAtomically not found"
        return rename_shape(ab, r"\bSaveToFile\s*\(\s*(\w+)\s*\)", "ConfigData::SaveToFileAtomically")
    return rename_shape(pb, r"->\s*SaveToFile\s*\(\s*(\w+)\s*\)", "SaveOutputPlugin")


def rename_shape(body, save_re, where):
    """SaveToFile(<tmp derived from file_path>), failure returns before, then rename(<tmp>, file_path)"""
    saves = re.findall(save_re, body)
    saves = [x for x in saves if x != "file_path"] or saves
    if len(saves) != 1:
        return "SaveUnknown", "%s: SaveToFile calls: %r" % (where, saves)
    if saves[0] == "file_path":
        return "InPlace", "std::ofstream out(file_path.c_str()) and %s saves to file_path" % where
    tmp = saves[0]
    sv = re.search(r"SaveToFile\s*\(\s*%s\s*\)" % re.escape(tmp), body)
    ren = re.search(r"\brename\s*\(\s*%s\s*,\s*file_path\b" % re.escape(tmp), body)
    derived = re.search(r"\b%s\s*\+=|\b%s\s*\(\s*file_path" % (tmp, tmp), body)
    if not (sv and ren and derived and sv.start() < ren.start()):
        return "SaveUnknown", "%s: temporary %s without the save/rename shape" % (where, tmp)
    between = body[sv.start():ren.start()]
    # a failed save must return before the rename
    early = re.search(r"if\s*\(\s*!\s*(?:resource->data->)?SaveToFile\s*\(\s*%s\s*\)\s*\)\s*\{?\s*return\s+false" % re.escape(tmp), body) or \
        (re.search(r"bool\s+(\w+)\s*=\s*SaveToFile\s*\(\s*%s\s*\)" % re.escape(tmp), body) and
         re.search(r"if\s*\(\s*!\s*\w+\s*\)\s*\{?\s*return\s+false", between))
    if not early:
        return "SaveUnknown", "%s: the rename is not guarded by the result of the save" % where
    return "TempRename", "%s: SaveToFile(%s) (stream closed on return), then rename(%s, file_path)" % (where, tmp, tmp)


def stamp_last():
    """WorkspaceUpdate::Run writes var/last_build_time exactly once, after the last schema update"""
    dt = read("lever/deployment_tasks.cc")
    b = body_of(dt, r"\bWorkspaceUpdate::Run\s*\(")
    if b is None:
        return False, "WorkspaceUpdate::Run not found"
    sets = [m.start() for m in re.finditer(r'SetInt\s*\(\s*"var/last_build_time"', b)]
    ups = [m.start() for m in re.finditer(r"\bbuild_schema\s*\(|\bSchemaUpdate\s*\(", b)]
    loops = [m.start() for m in re.finditer(r"\bfor\s*\(", b)]
    if len(sets) != 1 or not ups:
        return False, "writes of the stamp: %d, schema updates: %d" % (len(sets), len(ups))
    ok = sets[0] > max(ups) and sets[0] > max(loops)
    return ok, "SetInt(var/last_build_time) %s the schema loop" % ("follows" if ok else "precedes")


def coq_str(s):
    return '"' + s.replace('"', "'") + '"'


def coq_prog(evs):
    out = []
    for k, a in evs:
        if k in ("SField", "SUnknown"):
            out.append("%s %s" % (k, coq_str(a)))
        else:
            out.append(k)
    return "[" + "; ".join(out) + "]"


def generate():
    progs = {}
    for kind, rel, cls in (("KTable", "dict/table.cc", "Table"), ("KPrismF", "dict/prism.cc", "Prism"),
                           ("KReverse", "dict/reverse_lookup_dictionary.cc", "ReverseDb")):
        src = read(rel)
        progs[kind] = normalise(events_of(cls, src, "Build", frozenset()))
    sites = call_sites()
    rem = {}
    for k, key in (("KTable", "table"), ("KPrismF", "prism"), ("KReverse", "reverse")):
        rem[k] = bool(sites[key]) and all(s[3] for s in sites[key])
    if sites.get("unknown"):
        rem = {k: False for k in rem}
    resizes, zeroes, guarded = mapped_file_facts()
    mode, why = save_mode()
    stlast, stwhy = stamp_last()
    b = lambda x: "true" if x else "false"  # noqa: E731
    lines = [
        "(* GENERATED by /verif/gen/build_order.py from %s/src/rime/{dict,config} - do not edit *)" % vlib.REPO,
        "From Coq Require Import List String.", "From RimeV Require Import Dep.Crash.", "Import ListNotations.",
        "Local Open Scope string_scope.", "",
    ]
    for k in ("KTable", "KPrismF", "KReverse"):
        lines.append("Definition prog_%s : list bstmt := %s." % (k, coq_prog(progs[k])))
    lines += [
        "",
        "Definition facts : build_facts := {|",
        "  bf_prog := fun k => match k with KTable => prog_KTable | KPrismF => prog_KPrismF | KReverse => prog_KReverse end;",
        "  bf_remove_before := fun k => match k with KTable => %s | KPrismF => %s | KReverse => %s end;" %
        (b(rem["KTable"]), b(rem["KPrismF"]), b(rem["KReverse"])),
        # an unrecognised Create shape is treated as the unsafe one
        "  bf_create_resizes_existing := %s;" % b(resizes is not False),
        "  bf_alloc_zeroes := %s;" % b(zeroes),
        "  bf_open_guarded := %s;" % b(guarded),
        "  bf_save_mode := %s;" % mode,
        "  bf_stamp_last := %s |}." % b(stlast),
    ]
    vlib.write_if_changed(os.path.join(vlib.COQ, "Gen", "BuildOrder.v"), "\n".join(lines) + "\n")
    return dict(progs={k: [e[0] + (":" + e[1] if e[1] else "") for e in v] for k, v in progs.items()},
                call_sites={k: [list(s) for s in v] for k, v in sites.items()}, remove_before=rem,
                create_resizes_existing=resizes, alloc_zeroes=zeroes, open_guarded=guarded, save_mode=mode, save_why=why, stamp_last=stlast, stamp_why=stwhy)


if __name__ == "__main__":
    import json
    print(json.dumps(generate(), indent=1))
