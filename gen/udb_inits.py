#!/usr/bin/env python3
"""Translator for C17: clang AST of src/rime/dict/user_db.cc -> coq/Gen/Inits.v.

Facts extracted (syntactic, from the current source):
  * for UserDbMerger and UserDbImporter: every data member, and how it becomes
    initialised - a default member initialiser, the constructor's initialiser
    list, or an unconditional top-level assignment in the constructor body that
    precedes every read of that member in the body - or not at all;
  * which members the other methods (MetaPut, Put, CloseMerge, destructor) read;
  * whether UserDbValue's members carry the default initialisers 0 / 0.0 / 0
    (the model's `value0`, read by Put when the key is new);
  * every automatic variable declared without initialiser in the functions of the merge,
    snapshot and text export/import paths (tsv.cc, db_utils.cc, table_db.cc, user_db.cc,
    user_dict_manager.cc) - the model initialises all of its locals, so the list must be empty.
The model has exactly the members db_, our_tick_, their_tick_, max_tick_,
merged_entries_; if the class no longer has that shape (or has several
constructors, or the AST cannot be read) the translator refuses:
`translator_ok := false`, which makes Properties_C17.v fail.  Prints what it matched.
"""
import os
import sys

HERE = os.path.dirname(os.path.abspath(__file__))
sys.path.insert(0, os.path.join(os.path.dirname(HERE), "lib"))
sys.path.insert(0, HERE)
import vlib  # noqa: E402
from copy_sites import clang_ast, walk, strip  # noqa: E402

EXPECT_MERGER = ["db_", "our_tick_", "their_tick_", "max_tick_", "merged_entries_"]
EXPECT_IMPORTER = ["db_"]
EXPECT_VALUE = ["commits", "dee", "tick"]


def member_reads(n, skip=None):
    """names of members of *this mentioned under n (except node `skip`)"""
    out = []
    for x in walk(n):
        if x is skip:
            continue
        if x.get("kind") == "MemberExpr":
            base = x.get("inner", [{}])[0]
            while base.get("kind") in ("ImplicitCastExpr", "ParenExpr") and base.get("inner"):
                base = base["inner"][0]
            if base.get("kind") == "CXXThisExpr":
                out.append(x.get("name"))
    return out


def analyse_class(objs, cname):
    """returns (fields {name: kind}, reads [names], problems [str])"""
    problems = []
    recs = [o for o in objs if o.get("kind") == "CXXRecordDecl" and o.get("name") == cname and o.get("completeDefinition")]
    if len(recs) != 1:
        return {}, [], ["%d complete definitions of class %s" % (len(recs), cname)]
    rec = recs[0]
    fields = {}
    order = []
    for c in rec.get("inner", []):
        if c.get("kind") == "FieldDecl":
            order.append(c["name"])
            fields[c["name"]] = "InClass" if (c.get("hasInClassInitializer") or c.get("inner")) else "NotInitialised"
    # out-of-line (or inline) definitions with a body
    defs = {}
    for o in list(objs) + list(rec.get("inner", [])):
        if o.get("kind") in ("CXXConstructorDecl", "CXXDestructorDecl", "CXXMethodDecl") and \
                any(c.get("kind") == "CompoundStmt" for c in o.get("inner", []) or []):
            if o.get("kind") == "CXXMethodDecl" and o.get("name") not in ("MetaPut", "Put", "CloseMerge"):
                continue
            if o.get("kind") == "CXXConstructorDecl" and o.get("name") != cname:
                continue
            if o.get("kind") == "CXXDestructorDecl" and o.get("name") != "~" + cname:
                continue
            defs.setdefault((o["kind"], o.get("name")), []).append(o)
    ctors = [d for (k, n), ds in defs.items() if k == "CXXConstructorDecl" for d in ds if not d.get("isImplicit")]
    if len(ctors) != 1:
        problems.append("%s: %d user-provided constructor definitions (expected 1)" % (cname, len(ctors)))
    for ctor in ctors[:1]:
        init = set(n for n, k in fields.items() if k == "InClass")
        for c in ctor.get("inner", []):
            if c.get("kind") == "CXXCtorInitializer" and c.get("anyInit"):
                n = c["anyInit"].get("name")
                is_default = any(x.get("kind") == "CXXDefaultInitExpr" for x in walk(c))
                if n in fields and not is_default:
                    fields[n] = "CtorInitList"
                    init.add(n)
        body = [c for c in ctor.get("inner", []) if c.get("kind") == "CompoundStmt"]
        for s in (body[0].get("inner", []) if body else []):
            e = strip(s)
            lhs = None
            if e.get("kind") == "BinaryOperator" and e.get("opcode") == "=":
                l = strip(e["inner"][0])
                if l.get("kind") == "MemberExpr" and l.get("name") in fields and member_reads(l) == [l.get("name")]:
                    lhs = l
            for r in member_reads(s, skip=lhs):
                if r in fields and r not in init:
                    # read of a member before anything initialised it: it stays NotInitialised
                    problems_note = "%s constructor reads %s before initialising it" % (cname, r)
                    print("  note:", problems_note)
            if lhs is not None:
                n = lhs.get("name")
                if n not in init:
                    fields[n] = "CtorBody"
                    init.add(n)
    reads = []
    for (k, n), ds in sorted(defs.items()):
        if k == "CXXConstructorDecl":
            continue
        for d in ds:
            for r in member_reads(d):
                if r in fields and r not in reads:
                    reads.append(r)
    return {n: fields[n] for n in order}, reads, problems


def analyse_value(objs):
    recs = [o for o in objs if o.get("kind") == "CXXRecordDecl" and o.get("name") == "UserDbValue" and o.get("completeDefinition")]
    if len(recs) != 1:
        return {}, ["%d complete definitions of UserDbValue" % len(recs)]
    out = {}
    for c in recs[0].get("inner", []):
        if c.get("kind") == "FieldDecl":
            zero = False
            if c.get("hasInClassInitializer") and c.get("inner"):
                lit = strip(c["inner"][-1])
                if lit.get("kind") == "IntegerLiteral" and lit.get("value") == "0":
                    zero = True
                if lit.get("kind") == "FloatingLiteral" and float(lit.get("value", "1")) == 0.0:
                    zero = True
            out[c["name"]] = zero
    return out, []


# functions on the merge / snapshot / text export-import paths whose locals are inspected
LOCAL_SITES = [
    ("src/rime/dict/tsv.cc", "Tsv", ["operator()"]),
    ("src/rime/dict/db_utils.cc", "Dump", ["Dump"]),
    ("src/rime/dict/table_db.cc", "rime_table_entry", ["rime_table_entry_parser", "rime_table_entry_formatter"]),
    ("src/rime/dict/user_db.cc", "userdb_entry", ["userdb_entry_parser", "userdb_entry_formatter"]),
    ("src/rime/dict/user_db.cc", "UserDb", ["Put", "MetaPut", "CloseMerge", "Unpack", "Pack", "UniformBackup", "UniformRestore"]),
    ("src/rime/lever/user_dict_manager.cc", "UserDictManager", ["Backup", "Restore", "Export", "Import", "Synchronize"]),
]


def walk_parent(n, parent):
    yield n, parent
    for c in n.get("inner", []) or []:
        yield from walk_parent(c, n)


def uninitialised_locals():
    """(function, variable, line) for every automatic variable declared without an initialiser in the
    functions of LOCAL_SITES (class-type locals show up with init=call, i.e. default-constructed).
    Cached per source file content."""
    import hashlib
    import json
    cache_path = os.path.join(vlib.WORK, "c17_locals_cache.json")
    try:
        cache = json.load(open(cache_path))
    except Exception:
        cache = {}
    out, seen_fns, problems = [], [], []
    for rel, flt, names in LOCAL_SITES:
        src = os.path.join(vlib.REPO, rel)
        key = hashlib.sha256(open(src, "rb").read()).hexdigest() + ":v2:" + flt + ":" + ",".join(names)
        if key not in cache:
            found, fns = [], []
            try:
                objs = clang_ast(src, flt)
            except Exception as ex:
                problems.append("clang AST unavailable for %s: %s" % (rel, str(ex)[:120]))
                continue
            for o in objs:
                cands = [o] + [c for c in o.get("inner", []) or [] if c.get("kind") in ("CXXMethodDecl", "FunctionDecl")]
                for fn in cands:
                    if fn.get("kind") in ("CXXMethodDecl", "FunctionDecl") and fn.get("name") in names and \
                            any(c.get("kind") == "CompoundStmt" for c in fn.get("inner", []) or []):
                        fns.append(fn["name"])
                        for x, parent in walk_parent(fn, None):
                            if x.get("kind") == "VarDecl" and "init" not in x and x.get("storageClass") not in ("static", "extern") \
                                    and (parent or {}).get("kind") != "CXXCatchStmt":     # `catch (T& ex)` is bound by the throw
                                found.append([fn["name"], x.get("name"), (x.get("loc", {}) or {}).get("line")])
            cache[key] = {"found": found, "fns": sorted(set(fns))}
        out += [tuple(x) for x in cache[key]["found"]]
        seen_fns += ["%s:%s" % (os.path.basename(rel), f) for f in cache[key]["fns"]]
        missing = [n for n in names if n not in cache[key]["fns"]]
        if missing:
            problems.append("%s: expected function(s) %s not found" % (rel, missing))
    try:
        os.makedirs(vlib.WORK, exist_ok=True)
        json.dump({k: v for k, v in list(cache.items())[-40:]}, open(cache_path, "w"))
    except Exception:
        pass
    return sorted(set(out)), seen_fns, problems


def coq_list(items):
    return "[" + "; ".join(items) + "]"


def generate():
    src = os.path.join(vlib.REPO, "src", "rime", "dict", "user_db.cc")
    problems = []
    try:
        mobjs = clang_ast(src, "UserDbMerger")
        iobjs = clang_ast(src, "UserDbImporter")
        vobjs = clang_ast(src, "UserDbValue")
    except Exception as ex:  # clang failed: refuse
        mobjs, iobjs, vobjs = [], [], []
        problems.append("clang AST unavailable: %s" % str(ex)[:200])
    mf, mr, p1 = analyse_class(mobjs, "UserDbMerger")
    imf, imr, p2 = analyse_class(iobjs, "UserDbImporter")
    vf, p3 = analyse_value(vobjs)
    problems += p1 + p2 + p3
    locs, loc_fns, p4 = uninitialised_locals()
    problems += p4
    if sorted(mf) != sorted(EXPECT_MERGER):
        problems.append("UserDbMerger members are %s, the model has %s" % (sorted(mf), sorted(EXPECT_MERGER)))
    if sorted(imf) != sorted(EXPECT_IMPORTER):
        problems.append("UserDbImporter members are %s, the model has %s" % (sorted(imf), sorted(EXPECT_IMPORTER)))
    if sorted(vf) != sorted(EXPECT_VALUE):
        problems.append("UserDbValue members are %s, the model has %s" % (sorted(vf), sorted(EXPECT_VALUE)))
    ok = not problems
    q = lambda s: '"%s"' % s
    lines = [
        "(* GENERATED by /verif/gen/udb_inits.py from %s/src/rime/dict/user_db.cc (clang AST) - do not edit *)" % vlib.REPO,
        "From Coq Require Import List String Bool.",
        "From RimeV Require Import Udb.InitKinds.",
        "Import ListNotations.", "Local Open Scope string_scope.", "",
        "(* problems: %s *)" % ("none" if ok else " | ".join(problems).replace("*)", "* )")),
        "Definition translator_ok : bool := %s." % ("true" if ok else "false"),
        "Definition merger_fields : list (string * init_kind) := %s." %
        coq_list("(%s, %s)" % (q(n), k) for n, k in mf.items()),
        "Definition merger_fields_read : list string := %s." % coq_list(q(n) for n in mr),
        "Definition importer_fields : list (string * init_kind) := %s." %
        coq_list("(%s, %s)" % (q(n), k) for n, k in imf.items()),
        "Definition importer_fields_read : list string := %s." % coq_list(q(n) for n in imr),
        "Definition value_fields_zero_default : list (string * bool) := %s." %
        coq_list("(%s, %s)" % (q(n), "true" if z else "false") for n, z in vf.items()),
        "(* automatic variables declared without initialiser in %d inspected functions of the merge/snapshot/export/import paths *)" % len(loc_fns),
        "Definition uninitialised_locals : list (string * string) := %s." % coq_list("(%s, %s)" % (q(f), q(v)) for f, v, l in locs),
        "",
        "(* does construction leave UserDbMerger::merged_entries_ initialised? *)",
        "Definition ctor_inits_merged_entries : bool :=",
        "  translator_ok && field_initialised merger_fields \"merged_entries_\".",
        "",
        "(* every member any method reads is initialised by construction; UserDbValue defaults to zeros *)",
        "Definition all_read_members_initialised : bool :=",
        "  translator_ok && forallb (field_initialised merger_fields) merger_fields_read",
        "  && forallb (field_initialised importer_fields) importer_fields_read",
        "  && forallb snd value_fields_zero_default",
        "  && match uninitialised_locals with [] => true | _ => false end.",
    ]
    vlib.write_if_changed(os.path.join(vlib.COQ, "Gen", "Inits.v"), "\n".join(lines) + "\n")
    return dict(ok=ok, problems=problems, merger_fields=mf, merger_fields_read=mr, importer_fields=imf,
                importer_fields_read=imr, value_fields_zero_default=vf,
                uninitialised_locals=[list(x) for x in locs], inspected_functions=loc_fns,
                ctor_inits_merged_entries=ok and mf.get("merged_entries_") in ("InClass", "CtorInitList", "CtorBody"))


if __name__ == "__main__":
    r = generate()
    for k, v in r.items():
        print("%-28s %s" % (k, v))
