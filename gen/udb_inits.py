#!/usr/bin/env python3
"""Translator for C17: clang AST of src/rime/dict/user_db.cc -> coq/Gen/Inits.v.

Facts extracted (syntactic, from the current source):
  * for UserDbMerger and UserDbImporter: every data member, and how it becomes
    initialised - a default member initialiser, the constructor's initialiser
    list, or an unconditional top-level assignment in the constructor body that
    precedes every read of that member in the body - or not at all;
  * which members the other methods (MetaPut, Put, CloseMerge, destructor) read;
  * whether UserDbValue's members carry the default initialisers 0 / 0.0 / 0
    (the model's `value0`, read by Put when the key is new).
The model has exactly the members db_, our_tick_, their_tick_, max_tick_,
merged_entries_; if the class no longer has that shape (or has several
constructors, or the AST cannot be read) the translator refuses:
`translator_ok := false`, which makes Properties_C17.v fail.  Prints what it matched.
"""
import os
import sys

HERE = os.path.dirname(os.path.abspath(__file__))
sys.path.insert(0, os.path.join(os.path.dirname(HERE), "lib"))
sys.path.insert(0, HERE)
import vlib  # noqa: E402
from copy_sites import clang_ast, walk, strip  # noqa: E402

EXPECT_MERGER = ["db_", "our_tick_", "their_tick_", "max_tick_", "merged_entries_"]
EXPECT_IMPORTER = ["db_"]
EXPECT_VALUE = ["commits", "dee", "tick"]


def member_reads(n, skip=None):
    """names of members of *this mentioned under n (except node `skip`)"""
    out = []
    for x in walk(n):
        if x is skip:
            continue
        if x.get("kind") == "MemberExpr":
            base = x.get("inner", [{}])[0]
            while base.get("kind") in ("ImplicitCastExpr", "ParenExpr") and base.get("inner"):
                base = base["inner"][0]
            if base.get("kind") == "CXXThisExpr":
                out.append(x.get("name"))
    return out


def analyse_class(objs, cname):
    """returns (fields {name: kind}, reads [names], problems [str])"""
    problems = []
    recs = [o for o in objs if o.get("kind") == "CXXRecordDecl" and o.get("name") == cname and o.get("completeDefinition")]
    if len(recs) != 1:
        return {}, [], ["%d complete definitions of class %s" % (len(recs), cname)]
    rec = recs[0]
    fields = {}
    order = []
    for c in rec.get("inner", []):
        if c.get("kind") == "FieldDecl":
            order.append(c["name"])
            fields[c["name"]] = "InClass" if (c.get("hasInClassInitializer") or c.get("inner")) else "NotInitialised"
    # out-of-line (or inline) definitions with a body
    defs = {}
    for o in list(objs) + list(rec.get("inner", [])):
        if o.get("kind") in ("CXXConstructorDecl", "CXXDestructorDecl", "CXXMethodDecl") and \
                any(c.get("kind") == "CompoundStmt" for c in o.get("inner", []) or []):
            if o.get("kind") == "CXXMethodDecl" and o.get("name") not in ("MetaPut", "Put", "CloseMerge"):
                continue
            if o.get("kind") == "CXXConstructorDecl" and o.get("name") != cname:
                continue
            if o.get("kind") == "CXXDestructorDecl" and o.get("name") != "~" + cname:
                continue
            defs.setdefault((o["kind"], o.get("name")), []).append(o)
    ctors = [d for (k, n), ds in defs.items() if k == "CXXConstructorDecl" for d in ds if not d.get("isImplicit")]
    if len(ctors) != 1:
        problems.append("%s: %d user-provided constructor definitions (expected 1)" % (cname, len(ctors)))
    for ctor in ctors[:1]:
        init = set(n for n, k in fields.items() if k == "InClass")
        for c in ctor.get("inner", []):
            if c.get("kind") == "CXXCtorInitializer" and c.get("anyInit"):
                n = c["anyInit"].get("name")
                is_default = any(x.get("kind") == "CXXDefaultInitExpr" for x in walk(c))
                if n in fields and not is_default:
                    fields[n] = "CtorInitList"
                    init.add(n)
        body = [c for c in ctor.get("inner", []) if c.get("kind") == "CompoundStmt"]
        for s in (body[0].get("inner", []) if body else []):
            e = strip(s)
            lhs = None
            if e.get("kind") == "BinaryOperator" and e.get("opcode") == "=":
                l = strip(e["inner"][0])
                if l.get("kind") == "MemberExpr" and l.get("name") in fields and member_reads(l) == [l.get("name")]:
                    lhs = l
            for r in member_reads(s, skip=lhs):
                if r in fields and r not in init:
                    # read of a member before anything initialised it: it stays NotInitialised
                    problems_note = "%s constructor reads %s before initialising it" % (cname, r)
                    print("  note:", problems_note)
            if lhs is not None:
                n = lhs.get("name")
                if n not in init:
                    fields[n] = "CtorBody"
                    init.add(n)
    reads = []
    for (k, n), ds in sorted(defs.items()):
        if k == "CXXConstructorDecl":
            continue
        for d in ds:
            for r in member_reads(d):
                if r in fields and r not in reads:
                    reads.append(r)
    return {n: fields[n] for n in order}, reads, problems


def analyse_value(objs):
    recs = [o for o in objs if o.get("kind") == "CXXRecordDecl" and o.get("name") == "UserDbValue" and o.get("completeDefinition")]
    if len(recs) != 1:
        return {}, ["%d complete definitions of UserDbValue" % len(recs)]
    out = {}
    for c in recs[0].get("inner", []):
        if c.get("kind") == "FieldDecl":
            zero = False
            if c.get("hasInClassInitializer") and c.get("inner"):
                lit = strip(c["inner"][-1])
                if lit.get("kind") == "IntegerLiteral" and lit.get("value") == "0":
                    zero = True
                if lit.get("kind") == "FloatingLiteral" and float(lit.get("value", "1")) == 0.0:
                    zero = True
            out[c["name"]] = zero
    return out, []


def coq_list(items):
    return "[" + "; ".join(items) + "]"


def generate():
    src = os.path.join(vlib.REPO, "src", "rime", "dict", "user_db.cc")
    problems = []
    try:
        mobjs = clang_ast(src, "UserDbMerger")
        iobjs = clang_ast(src, "UserDbImporter")
        vobjs = clang_ast(src, "UserDbValue")
    except Exception as ex:  # clang failed: refuse
        mobjs, iobjs, vobjs = [], [], []
        problems.append("clang AST unavailable: %s" % str(ex)[:200])
    mf, mr, p1 = analyse_class(mobjs, "UserDbMerger")
    imf, imr, p2 = analyse_class(iobjs, "UserDbImporter")
    vf, p3 = analyse_value(vobjs)
    problems += p1 + p2 + p3
    if sorted(mf) != sorted(EXPECT_MERGER):
        problems.append("UserDbMerger members are %s, the model has %s" % (sorted(mf), sorted(EXPECT_MERGER)))
    if sorted(imf) != sorted(EXPECT_IMPORTER):
        problems.append("UserDbImporter members are %s, the model has %s" % (sorted(imf), sorted(EXPECT_IMPORTER)))
    if sorted(vf) != sorted(EXPECT_VALUE):
        problems.append("UserDbValue members are %s, the model has %s" % (sorted(vf), sorted(EXPECT_VALUE)))
    ok = not problems
    q = lambda s: '"%s"' % s
    lines = [
        "(* GENERATED by /verif/gen/udb_inits.py from %s/src/rime/dict/user_db.cc (clang AST) - do not edit *)" % vlib.REPO,
        "From Coq Require Import List String Bool.",
        "From RimeV Require Import Udb.InitKinds.",
        "Import ListNotations.", "Local Open Scope string_scope.", "",
        "(* problems: %s *)" % ("none" if ok else " | ".join(problems).replace("*)", "* )")),
        "Definition translator_ok : bool := %s." % ("true" if ok else "false"),
        "Definition merger_fields : list (string * init_kind) := %s." %
        coq_list("(%s, %s)" % (q(n), k) for n, k in mf.items()),
        "Definition merger_fields_read : list string := %s." % coq_list(q(n) for n in mr),
        "Definition importer_fields : list (string * init_kind) := %s." %
        coq_list("(%s, %s)" % (q(n), k) for n, k in imf.items()),
        "Definition importer_fields_read : list string := %s." % coq_list(q(n) for n in imr),
        "Definition value_fields_zero_default : list (string * bool) := %s." %
        coq_list("(%s, %s)" % (q(n), "true" if z else "false") for n, z in vf.items()),
        "",
        "(* does construction leave UserDbMerger::merged_entries_ initialised? *)",
        "Definition ctor_inits_merged_entries : bool :=",
        "  translator_ok && field_initialised merger_fields \"merged_entries_\".",
        "",
        "(* every member any method reads is initialised by construction; UserDbValue defaults to zeros *)",
        "Definition all_read_members_initialised : bool :=",
        "  translator_ok && forallb (field_initialised merger_fields) merger_fields_read",
        "  && forallb (field_initialised importer_fields) importer_fields_read",
        "  && forallb snd value_fields_zero_default.",
    ]
    vlib.write_if_changed(os.path.join(vlib.COQ, "Gen", "Inits.v"), "\n".join(lines) + "\n")
    return dict(ok=ok, problems=problems, merger_fields=mf, merger_fields_read=mr, importer_fields=imf,
                importer_fields_read=imr, value_fields_zero_default=vf,
                ctor_inits_merged_entries=ok and mf.get("merged_entries_") in ("InClass", "CtorInitList", "CtorBody"))


if __name__ == "__main__":
    r = generate()
    for k, v in r.items():
        print("%-28s %s" % (k, v))
