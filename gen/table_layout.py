#!/usr/bin/env python3
"""Translator for C06: the real headers / table.cc / mapped_file.h -> coq/Gen/Layout.v.

1. sizeof/alignof of the table structs: a small printf probe is compiled
   against the *current* src/rime/dict/table.h (the same compiler and flags
   family as the library build) and run.
2. The size estimate of Table::Build (table.cc, `estimated_file_size`), the
   growth rule of MappedFile::Allocate (mapped_file.h) and whether
   Table::OnBuildFinish looks metadata_ up again after allocating the string
   image are extracted lexically.  Whatever is not recognised is emitted as
   EstUnrecognised / false - the theorems over Gen.Layout then fail; nothing
   is guessed.
Prints what it matched.
"""
import hashlib
import os
import re
import sys

HERE = os.path.dirname(os.path.abspath(__file__))
sys.path.insert(0, os.path.join(os.path.dirname(HERE), "lib"))
import vlib  # noqa: E402

PROBE = r"""
#include <cstdio>
#include <rime/dict/table.h>
using namespace rime;
#define P(name, T) printf(#name " %zu %zu\n", sizeof(T), alignof(T))
int main() {
  P(metadata, table::Metadata);
  P(stringtype, table::StringType);
  P(arr_stringtype, Array<table::StringType>);
  P(headnode, table::HeadIndexNode);
  P(arr_headnode, Array<table::HeadIndexNode>);
  P(trunknode, table::TrunkIndexNode);
  P(arr_trunknode, Array<table::TrunkIndexNode>);
  P(longentry, table::LongEntry);
  P(arr_longentry, Array<table::LongEntry>);
  P(entry, table::Entry);
  P(syllid, SyllableId);
  P(chr, char);
  printf("index_code_max_length %zu 0\n", (size_t)Code::kIndexCodeMaxLength);
  // the members the model relies on being where the code says
  static_assert(sizeof(table::Weight) == sizeof(float), "Weight is float");
  static_assert(sizeof(Array<char>) >= sizeof(char), "Array<T> holds one element");
  return 0;
}
"""

HEADERS = ["src/rime/dict/table.h", "src/rime/dict/mapped_file.h", "src/rime/dict/vocabulary.h",
           "src/rime/dict/string_table.h", "src/rime/common.h"]


def probe_sizes():
    vlib.gen_build_config()
    h = hashlib.sha256(PROBE.encode())
    for rel in HEADERS:
        h.update(open(os.path.join(vlib.REPO, rel), "rb").read())
    d = os.path.join(vlib.CACHE, "c06-layout")
    os.makedirs(d, exist_ok=True)
    key = h.hexdigest()[:24]
    outp = os.path.join(d, key + ".txt")
    if os.path.exists(outp):
        return parse_probe(open(outp).read())
    with vlib.Lock(os.path.join(d, ".lock")):
        src = os.path.join(d, key + ".cc")
        exe = os.path.join(d, key + ".bin")
        open(src, "w").write(PROBE)
        rc, out = vlib.sh("timeout 300 g++ -std=c++17 -O0 -I%s/src -I%s/include -I%s/_gen_include %s -o %s"
                          % (vlib.REPO, vlib.REPO, vlib.WORK, src, exe), timeout=330)
        if rc != 0:
            raise vlib.BuildError("layout probe does not compile against the current headers:\n" + out[-4000:])
        rc, out = vlib.sh([exe], timeout=30)
        if rc != 0:
            raise vlib.BuildError("layout probe failed to run: " + out[-1000:])
        tmp = outp + ".tmp%d" % os.getpid()
        open(tmp, "w").write(out)
        os.replace(tmp, outp)
        for f in (src, exe):
            try:
                os.remove(f)
            except OSError:
                pass
    return parse_probe(out)


def parse_probe(txt):
    r = {}
    for l in txt.split("\n"):
        f = l.split()
        if len(f) == 3:
            r[f[0]] = (int(f[1]), int(f[2]))
    return r


def strip_comments(src):
    src = re.sub(r"/\*.*?\*/", " ", src, flags=re.S)
    return re.sub(r"//[^\n]*", "", src)


def function_body(src, header_re):
    """text of the brace-balanced body following the first match of header_re"""
    m = re.search(header_re, src)
    if not m:
        return None
    i = src.index("{", m.end() - 1)
    depth, j = 0, i
    while j < len(src):
        if src[j] == "{":
            depth += 1
        elif src[j] == "}":
            depth -= 1
            if depth == 0:
                return src[i:j + 1]
        j += 1
    return None


def parse_estimate():
    """-> (coq term for estimate_kind, description)"""
    src = strip_comments(open(os.path.join(vlib.REPO, "src/rime/dict/table.cc")).read())
    body = function_body(src, r"bool\s+Table::Build\s*\([^)]*\)\s*\{")
    if body is None:
        return "EstUnrecognised", "Table::Build not found"
    flat = re.sub(r"\s+", " ", body)
    mres = re.search(r"const size_t kReservedSize = (\d+) ?;", flat)
    mlin = re.search(r"size_t estimated_file_size = kReservedSize \+ (\d+) \* num_syllables \+ (\d+) \* num_entries ?;", flat)
    mcreate = re.search(r"Create\( ?estimated_file_size ?\)", flat)
    if not (mres and mlin and mcreate):
        return "EstUnrecognised", "estimate expression / Create(estimated_file_size) not recognised"
    reserved = int(mres.group(1))
    a, b = int(mlin.group(1)), int(mlin.group(2))
    # every other assignment to estimated_file_size between its definition and Create()
    seg = flat[mlin.end():mcreate.start()]
    others = re.findall(r"estimated_file_size\s*(?:=|\+=|-=|\*=)[^;]*;", seg)
    if not others:
        return "(EstLinear %d %d %d)" % (reserved, a, b), "kReservedSize=%d + %d*num_syllables + %d*num_entries" % (reserved, a, b)
    if len(others) == 1 and re.fullmatch(
            r"estimated_file_size = \(? ?std::max ?\)? ?\( ?estimated_file_size ?, ?kReservedSize \+ "
            r"IndexSize ?\( ?vocabulary ?, ?num_syllables ?\) ?\) ?;", others[0]):
        # the exact-size function itself is not translated: the capacity it yields is compared with
        # the model's bytes_fixed on every correspondence case (checks/c06.py, stream `cap`)
        if function_body(src, r"size_t\s+IndexSize\s*\([^)]*\)\s*\{") is not None:
            return "(EstIndexExact %d %d %d)" % (reserved, a, b), \
                "max(kReservedSize=%d + %d*S + %d*N, kReservedSize + IndexSize(vocabulary, S))" % (reserved, a, b)
    return "EstUnrecognised", "estimated_file_size is modified in an unrecognised way: %r" % others


def parse_growth():
    src = strip_comments(open(os.path.join(vlib.REPO, "src/rime/dict/mapped_file.h")).read())
    body = function_body(src, r"T\*\s+MappedFile::Allocate\s*\([^)]*\)\s*\{")
    if body is None:
        return None, "MappedFile::Allocate not found"
    flat = re.sub(r"\s+", " ", body)
    ok = all(re.search(p, flat) for p in [
        r"size_t used_space = RIME_ALIGNED\(size_, T\);",
        r"size_t required_space = sizeof\(T\) \* count;",
        r"size_t file_size = capacity\(\);",
        r"if \(used_space \+ required_space > file_size\) \{",
        r"if \(!Resize\(new_size\) \|\| !OpenReadWrite\(\)\) return NULL;",
        r"size_ = used_space \+ required_space;"])
    if not ok:
        return None, "MappedFile::Allocate has an unrecognised shape"
    if re.search(r"size_t new_size = \(std::max\)\(used_space \+ required_space, file_size \* 2\);", flat):
        return True, "grow to max(needed, 2*capacity), remap"
    if re.search(r"size_t new_size = used_space \+ required_space;", flat):
        return False, "grow to needed, remap"
    return None, "growth rule not recognised"


def parse_rederive():
    src = strip_comments(open(os.path.join(vlib.REPO, "src/rime/dict/table.cc")).read())
    body = function_body(src, r"bool\s+Table::OnBuildFinish\s*\(\s*\)\s*\{")
    if body is None:
        return None, "Table::OnBuildFinish not found"
    flat = re.sub(r"\s+", " ", body)
    m = re.search(r"Allocate<char>\(image_size\)", flat)
    if not m or not re.search(r"string_table_builder_->Build\(\);.*Allocate<char>\(image_size\)", flat):
        return None, "OnBuildFinish: Build() then Allocate<char>(image_size) not recognised"
    after = flat[m.end():]
    use = re.search(r"metadata_->", after)
    red = re.search(r"metadata_ = Find<table::Metadata>\(0\);", after)
    if red and use and red.start() < use.start():
        return True, "metadata_ = Find<table::Metadata>(0) before metadata_ is used again"
    return False, "metadata_ is used after Allocate<char>(image_size) without being looked up again"


def generate():
    sizes = probe_sizes()
    need = ["metadata", "stringtype", "arr_stringtype", "headnode", "arr_headnode", "trunknode", "arr_trunknode",
            "longentry", "arr_longentry", "entry", "syllid", "chr", "index_code_max_length"]
    missing = [k for k in need if k not in sizes]
    est, est_desc = parse_estimate()
    growth, growth_desc = parse_growth()
    red, red_desc = parse_rederive()
    if missing or growth is None or red is None:
        est = "EstUnrecognised"
    g = lambda k, i=0: sizes.get(k, (0, 0))[i]
    lines = [
        "(* GENERATED by /verif/gen/table_layout.py from %s/src/rime/dict/{table.h,table.cc,mapped_file.h} - do not edit *)" % vlib.REPO,
        "From Coq Require Import NArith.", "From RimeV Require Import Dict.MFile.", "Local Open Scope N_scope.", "",
        "Definition current_layout : layout := {|",
        "  sz_metadata := %d; al_metadata := %d;" % (g("metadata"), g("metadata", 1)),
        "  sz_stringtype := %d; sz_arr_stringtype := %d;" % (g("stringtype"), g("arr_stringtype")),
        "  sz_headnode := %d; sz_arr_headnode := %d;" % (g("headnode"), g("arr_headnode")),
        "  sz_trunknode := %d; sz_arr_trunknode := %d;" % (g("trunknode"), g("arr_trunknode")),
        "  sz_longentry := %d; sz_arr_longentry := %d;" % (g("longentry"), g("arr_longentry")),
        "  sz_entry := %d; al_entry := %d;" % (g("entry"), g("entry", 1)),
        "  sz_syllid := %d; al_syllid := %d;" % (g("syllid"), g("syllid", 1)),
        "  al_char := %d |}." % g("chr", 1), "",
        "(* Code::kIndexCodeMaxLength *)",
        "Definition index_code_max_length : N := %d." % g("index_code_max_length"), "",
        "(* Table::Build: %s *)" % est_desc.replace("*)", "* )"),
        "(* MappedFile::Allocate: %s *)" % growth_desc,
        "(* Table::OnBuildFinish: %s *)" % red_desc,
        "Definition current_facts : build_facts := {|",
        "  bf_estimate := %s;" % est,
        "  bf_growth_doubles := %s;" % ("true" if growth else "false"),
        "  bf_rederive_after_image := %s |}." % ("true" if red else "false"), ""]
    vlib.write_if_changed(os.path.join(vlib.COQ, "Gen", "Layout.v"), "\n".join(lines))
    return {"sizes": {k: list(v) for k, v in sizes.items()}, "estimate": est, "estimate_desc": est_desc,
            "growth_doubles": growth, "growth_desc": growth_desc, "rederive": red, "rederive_desc": red_desc,
            "missing": missing}


if __name__ == "__main__":
    import json
    print(json.dumps(generate(), indent=1))
