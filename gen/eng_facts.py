"""Translator: source facts of the session core -> coq/Gen/EngFacts.v.

delete_candidate_guard: does Context::DeleteCandidate(index) (src/rime/context.cc)
look the candidate up before it writes `seg.selected_index = index`?
  DeleteChecked      the assignment is inside `if (auto cand = seg.GetCandidateAt(index)) { ... }`
                     and the function ends with `return false;` after that block
  DeleteUnchecked    the assignment is an unconditional statement of the function body
  DeleteUnrecognised anything else (the theorems that need the fact then fail)
commit_history_guard: does CommitHistory::Push(const Composition&, const string&)
(src/rime/commit_history.cc) forget `last` when it pushes a "raw" record for a segment
without candidate?  (Without the reset `last` may point to a record that a later Push()
evicted: kMaxRecords.)
  HistGuarded        the else-branch is `Push({"raw", ...}); last = NULL; end = seg.end;`
  HistUnguarded      the else-branch is `Push({"raw", ...}); end = seg.end;`
  HistUnrecognised   anything else
Narrow lexical extraction of the function body from the CURRENT source.
"""
import os
import re
import sys

sys.path.insert(0, os.path.join(os.path.dirname(os.path.abspath(__file__)), "..", "lib"))
import vlib  # noqa: E402


def _strip_comments(src):
    src = re.sub(r"/\*.*?\*/", " ", src, flags=re.S)
    return re.sub(r"//[^\n]*", "", src)


def _body(src, header_re):
    m = re.search(header_re, src)
    if not m:
        return None
    i = m.end() - 1
    depth, j = 0, i
    while j < len(src):
        if src[j] == "{":
            depth += 1
        elif src[j] == "}":
            depth -= 1
            if depth == 0:
                return src[i + 1:j]
        j += 1
    return None


def extract():
    src = _strip_comments(open(os.path.join(vlib.REPO, "src", "rime", "context.cc")).read())
    body = _body(src, r"bool\s+Context::DeleteCandidate\s*\(\s*size_t\s+index\s*\)\s*\{")
    if body is None:
        return "DeleteUnrecognised", "function not found"
    flat = " ".join(body.split())
    flat = re.sub(r"DLOG\(INFO\)[^;]*;", "", flat)   # log statements carry no state
    flat = " ".join(flat.split())
    unchecked = ("if (composition_.empty()) return false; Segment& seg(composition_.back()); "
                 "seg.selected_index = index; delete_notifier_(this); return true;")
    checked = ("if (composition_.empty()) return false; Segment& seg(composition_.back()); "
               "if (auto cand = seg.GetCandidateAt(index)) { seg.selected_index = index; "
               "delete_notifier_(this); return true; } return false;")
    if flat == unchecked:
        return "DeleteUnchecked", flat
    if flat == checked:
        return "DeleteChecked", flat
    return "DeleteUnrecognised", flat


def extract_hist():
    src = _strip_comments(open(os.path.join(vlib.REPO, "src", "rime", "commit_history.cc")).read())
    body = _body(src, r"void\s+CommitHistory::Push\s*\(\s*const\s+Composition&\s+composition\s*,\s*const\s+string&\s+input\s*\)\s*\{")
    if body is None:
        return "HistUnrecognised", "function not found"
    flat = " ".join(body.split())
    head = ("CommitRecord* last = NULL; size_t end = 0; for (const Segment& seg : composition) { "
            "if (auto cand = seg.GetSelectedCandidate()) { if (last && last->type == cand->type()) { "
            "last->text += cand->text(); } else { Push({cand->type(), cand->text()}); last = &back(); } "
            "if (seg.status >= Segment::kConfirmed) { last = NULL; } end = cand->end(); } else { "
            'Push({"raw", input.substr(seg.start, seg.end - seg.start)}); ')
    tail = 'end = seg.end; } } if (input.length() > end) { Push({"raw", input.substr(end)}); }'
    if flat == head + tail:
        return "HistUnguarded", flat
    if flat in (head + "last = NULL; " + tail, head + "last = nullptr; " + tail):
        return "HistGuarded", flat
    return "HistUnrecognised", flat


def extract_key_binder():
    """key_binder_redirect_guard: KeyBinder::ProcessKeyEvent declines every key while redirecting_ is set, and
    PerformKeyBinding sets it around the replay loop (RedirectGuarded); RedirectUnguarded when the replay loop runs
    without the flag being set; anything else RedirectUnrecognised."""
    src = _strip_comments(open(os.path.join(vlib.REPO, "src", "rime", "gear", "key_binder.cc")).read())
    pk = _body(src, r"ProcessResult\s+KeyBinder::ProcessKeyEvent\s*\(\s*const\s+KeyEvent&\s+key_event\s*\)\s*\{")
    pb = _body(src, r"void\s+KeyBinder::PerformKeyBinding\s*\(\s*const\s+KeyBinding&\s+binding\s*\)\s*\{")
    if pk is None or pb is None:
        return "RedirectUnrecognised", "function not found"
    fk, fb = " ".join(pk.split()), " ".join(pb.split())
    head_ok = fk.startswith("if (redirecting_ || !key_bindings_ || key_bindings_->empty()) return kNoop;")
    guarded = ("if (binding.action) { binding.action(engine_); } else { redirecting_ = true; "
               "for (const KeyEvent& key_event : binding.target) { engine_->ProcessKey(key_event); } redirecting_ = false; }")
    unguarded = ("if (binding.action) { binding.action(engine_); } else { "
                 "for (const KeyEvent& key_event : binding.target) { engine_->ProcessKey(key_event); } }")
    flat = fk[:90] + " ... | " + fb
    if head_ok and fb == guarded:
        return "RedirectGuarded", flat
    if fb == unguarded or (fb == guarded and fk.startswith("if (!key_bindings_ || key_bindings_->empty()) return kNoop;")):
        return "RedirectUnguarded", flat
    return "RedirectUnrecognised", flat


def extract_ascii():
    """constants of AsciiComposer::ProcessKeyEvent (src/rime/gear/ascii_composer.cc) the model writes as literals: the tap
    window `std::chrono::milliseconds(N)`, the strict comparison `now < toggle_expired_`, the range of keys pushed in
    ascii mode `ch >= LO && ch < HI`.  -> (recognised, ms, strict, lo, hi)"""
    src = _strip_comments(open(os.path.join(vlib.REPO, "src", "rime", "gear", "ascii_composer.cc")).read())
    body = _body(src, r"ProcessResult\s+AsciiComposer::ProcessKeyEvent\s*\(\s*const\s+KeyEvent&\s+key_event\s*\)\s*\{")
    if body is None:
        return False, 0, False, 0, 0
    flat = " ".join(body.split())
    ms = re.findall(r"std::chrono::milliseconds\(\s*(\d+)\s*\)", flat)
    cmp_ = re.findall(r"now\s*(<=|<)\s*toggle_expired_", flat)
    rng = re.findall(r"ch\s*>=\s*(0x[0-9a-fA-F]+|\d+)\s*&&\s*ch\s*<\s*(0x[0-9a-fA-F]+|\d+)", flat)
    ok = len(ms) == 1 and len(cmp_) == 1 and len(rng) == 1 and "toggle_expired_ = now + toggle_duration_limit" in flat
    if not ok:
        return False, 0, False, 0, 0
    return True, int(ms[0]), cmp_[0] == "<", int(rng[0][0], 0), int(rng[0][1], 0)


def extract_shape():
    r"""ShapeFormatter::Format (src/rime/gear/shape.cc), read statement by statement: the option test, the all_of test
    `ch < A || ch > B`, the space case `ch == SP` with its literal, the range `ch > LO && ch <= HI`, `ch -= SUB` and the
    three bytes `'\xL' << char('\xM' + ch / D) << char('\xT' + ch % R)`, every other char copied.
    -> (recognised, dict of numbers)"""
    zero = dict(a=0, b=0, sp=0, space=[], lo=0, hi=0, sub=0, lead=0, mid=0, div=1, tail=0, rem=1)
    try:
        src = _strip_comments(open(os.path.join(vlib.REPO, "src", "rime", "gear", "shape.cc")).read())
    except OSError:
        return False, zero
    body = _body(src, r"void\s+ShapeFormatter::Format\s*\(\s*string\s*\*\s*text\s*\)\s*\{")
    if body is None:
        return False, zero
    flat = " ".join(body.split())
    num = r"(0x[0-9a-fA-F]+|\d+)"
    hexc = r"'\\x([0-9a-fA-F]{2})'"
    pat = (r'^if \(!engine_->context\(\)->get_option\("full_shape"\)\) \{ return; \} '
           r'if \(std::all_of\(text->cbegin\(\), text->cend\(\), \[\]\(auto ch\) \{ return \(ch < ' + num + r' \|\| ch > ' + num + r'\); \}\)\) \{ return; \} '
           r'std::ostringstream oss; for \(char ch : \*text\) \{ '
           r'if \(ch == ' + num + r'\) \{ oss << "((?:\\x[0-9a-fA-F]{2})+)"; \} '
           r'else if \(ch > ' + num + r' && ch <= ' + num + r'\) \{ ch -= ' + num + r'; '
           r'oss << ' + hexc + r' << char\(' + hexc + r' \+ ch / ' + num + r'\) << char\(' + hexc + r' \+ ch % ' + num + r'\); \} '
           r'else \{ oss << ch; \} \} \*text = oss\.str\(\);$')
    m = re.match(pat, flat)
    if not m:
        return False, zero
    g = m.groups()
    space = [int(x, 16) for x in re.findall(r"\\x([0-9a-fA-F]{2})", g[3])]
    return True, dict(a=int(g[0], 0), b=int(g[1], 0), sp=int(g[2], 0), space=space, lo=int(g[4], 0), hi=int(g[5], 0),
                      sub=int(g[6], 0), lead=int(g[7], 16), mid=int(g[8], 16), div=int(g[9], 0), tail=int(g[10], 16),
                      rem=int(g[11], 0))


def generate():
    guard, flat = extract()
    hguard, hflat = extract_hist()
    kguard, kflat = extract_key_binder()
    out = ["(** GENERATED by gen/eng_facts.py from src/rime/context.cc - do not edit. *)",
           "Inductive delete_guard := DeleteChecked | DeleteUnchecked | DeleteUnrecognised.",
           "(* Context::DeleteCandidate, log statements removed: %s *)" % flat.replace("(*", "( *").replace("*)", "* )"),
           "Definition delete_candidate_guard : delete_guard := %s." % guard,
           "Inductive hist_guard := HistGuarded | HistUnguarded | HistUnrecognised.",
           "(* CommitHistory::Push(composition, input): %s *)" % hflat.replace("(*", "( *").replace("*)", "* )"),
           "Definition commit_history_guard : hist_guard := %s." % hguard,
           "Inductive redirect_guard := RedirectGuarded | RedirectUnguarded | RedirectUnrecognised.",
           "(* KeyBinder::ProcessKeyEvent (head) | PerformKeyBinding: %s *)" % kflat.replace("(*", "( *").replace("*)", "* )"),
           "Definition key_binder_redirect_guard : redirect_guard := %s." % kguard]
    aok, ams, astrict, alo, ahi = extract_ascii()
    out += ["From Coq Require Import NArith ZArith.",
            "(* AsciiComposer::ProcessKeyEvent: tap window (ms), `now < toggle_expired_` strict?, keys pushed in ascii mode lo <= ch < hi *)",
            "Definition ascii_facts_recognised : bool := %s." % ("true" if aok else "false"),
            "Definition ascii_toggle_window_ms : N := %d%%N." % ams,
            "Definition ascii_window_strict : bool := %s." % ("true" if astrict else "false"),
            "Definition ascii_push_lo : Z := %d%%Z." % alo,
            "Definition ascii_push_hi : Z := %d%%Z." % ahi]
    sok, sh = extract_shape()
    out += ["(* ShapeFormatter::Format: all_of (ch < a || ch > b) keeps the text; ch == sp -> space bytes; lo < ch <= hi -> ch -= sub;",
            "   lead, mid + ch / div, tail + ch % rem; any other char copied ([char] taken as signed) *)",
            "Definition shape_facts_recognised : bool := %s." % ("true" if sok else "false"),
            "Definition shape_keep_below : Z := %d%%Z." % sh["a"],
            "Definition shape_keep_above : Z := %d%%Z." % sh["b"],
            "Definition shape_space_char : Z := %d%%Z." % sh["sp"],
            "Definition shape_space_bytes : list N := %s." % ("".join("cons %d%%N (" % x for x in sh["space"]) + "nil" + ")" * len(sh["space"])),
            "Definition shape_wide_above : Z := %d%%Z." % sh["lo"],
            "Definition shape_wide_upto : Z := %d%%Z." % sh["hi"],
            "Definition shape_wide_sub : Z := %d%%Z." % sh["sub"],
            "Definition shape_wide_lead : N := %d%%N." % sh["lead"],
            "Definition shape_wide_mid : Z := %d%%Z." % sh["mid"],
            "Definition shape_wide_div : Z := %d%%Z." % sh["div"],
            "Definition shape_wide_tail : Z := %d%%Z." % sh["tail"],
            "Definition shape_wide_rem : Z := %d%%Z." % sh["rem"], ""]
    vlib.write_if_changed(os.path.join(vlib.COQ, "Gen", "EngFacts.v"), "\n".join(out))
    return guard, flat


if __name__ == "__main__":
    print(generate())
