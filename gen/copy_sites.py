#!/usr/bin/env python3
"""Translator for C20: clang AST of src/rime_api.cc -> coq/Gen/CopySites.v.

For every function definition that has a `char*` parameter immediately followed
by a `size_t` parameter, collect, in program order, the statements that mention
the pointer and translate each into the `stmt` language of Buf/CopyModel.v.
Whatever is not understood becomes `Unrecognised` (the sweep theorem then
fails; nothing is guessed).  Prints what it matched.
"""
import json
import os
import re
import subprocess
import sys

HERE = os.path.dirname(os.path.abspath(__file__))
sys.path.insert(0, os.path.join(os.path.dirname(HERE), "lib"))
import vlib  # noqa: E402


def clang_ast(source, flt):
    vlib.gen_build_config()
    cmd = ["clang++", "-std=c++17", "-fsyntax-only", "-I%s/src" % vlib.REPO, "-I%s/include" % vlib.REPO,
           "-I%s/_gen_include" % vlib.WORK, "-DRIME_VERSION=\"x\"", "-DRIME_VERIF_HOOKS", "-Wno-everything",
           "-Xclang", "-ast-dump=json", "-Xclang", "-ast-dump-filter=" + flt, source]
    p = subprocess.run(cmd, stdout=subprocess.PIPE, stderr=subprocess.PIPE, text=True, timeout=300)
    txt = p.stdout
    dec = json.JSONDecoder()
    i, objs = 0, []
    while True:
        while i < len(txt) and txt[i] in " \n\r\t":
            i += 1
        if i >= len(txt):
            break
        if txt.startswith("Dumping", i):
            i = txt.index("\n", i) + 1
            continue
        o, i = dec.raw_decode(txt, i)
        objs.append(o)
    if not objs:
        raise RuntimeError("clang produced no AST: " + p.stderr[-2000:])
    return objs


def walk(n):
    yield n
    for c in n.get("inner", []) or []:
        yield from walk(c)


def refs(n, name):
    return any(x.get("kind") == "DeclRefExpr" and x.get("referencedDecl", {}).get("name") == name for x in walk(n))


def strip(n):
    """skip implicit casts / parens / cleanups"""
    while n.get("kind") in ("ImplicitCastExpr", "ParenExpr", "ExprWithCleanups", "CXXBindTemporaryExpr",
                            "CStyleCastExpr", "CXXStaticCastExpr", "CXXFunctionalCastExpr", "MaterializeTemporaryExpr",
                            "ConstantExpr") and n.get("inner"):
        n = n["inner"][0]
    return n


def is_ref(n, name):
    n = strip(n)
    return n.get("kind") == "DeclRefExpr" and n.get("referencedDecl", {}).get("name") == name


def int_lit(n):
    n = strip(n)
    if n.get("kind") in ("IntegerLiteral", "CharacterLiteral"):
        return int(n.get("value"))
    if n.get("kind") == "CXXNullPtrLiteralExpr" or n.get("kind") == "GNUNullExpr":
        return 0
    return None


def callee_name(n):
    n = strip(n)
    if n.get("kind") != "CallExpr" and n.get("kind") != "CXXMemberCallExpr":
        return None
    f = strip(n["inner"][0])
    if f.get("kind") == "DeclRefExpr":
        return f.get("referencedDecl", {}).get("name")
    if f.get("kind") == "MemberExpr":
        return "." + f.get("name", "?")
    return None


def is_len(n, P):
    """strlen(x) / x.size() / x.length() of something that is not the destination"""
    c = callee_name(n)
    return c in ("strlen", ".size", ".length") and not refs(n, P)


def size_expr(n, P, N):
    n = strip(n)
    if is_ref(n, N):
        return "SzN"
    v = int_lit(n)
    if v is not None:
        return "(SzConst %d)" % v
    if is_len(n, P):
        return "SzLen"
    if n.get("kind") == "BinaryOperator":
        a, b = n["inner"]
        op = n.get("opcode")
        if op == "-" and is_ref(a, N) and int_lit(b) == 1:
            return "SzNm1"
        if op == "+" and is_len(a, P) and int_lit(b) == 1:
            return "SzLenP1"
    c = callee_name(n)
    if c == "min":
        args = [size_expr(x, P, N) for x in strip(n)["inner"][1:]]
        if sorted(args) == sorted(["SzLen", "SzNm1"]):
            return "SzMinLenNm1"
        if sorted(args) == sorted(["SzLenP1", "SzN"]):
            return "SzMinLenP1N"
    return "SzUnknown"


def cond_is_n_positive(c, N):
    c = strip(c)
    if is_ref(c, N):
        return True
    if c.get("kind") == "BinaryOperator":
        a, b = c["inner"]
        op = c.get("opcode")
        if is_ref(a, N) and ((op in (">", "!=") and int_lit(b) == 0) or (op == ">=" and int_lit(b) == 1)):
            return True
        if is_ref(b, N) and ((op in ("<", "!=") and int_lit(a) == 0) or (op == "<=" and int_lit(a) == 1)):
            return True
    return False


def cond_only_nullchecks_ptr(c, P):
    """P occurs in the condition only as `!P`, `P == nullptr`, `P != nullptr` or bare `P`."""
    for x in walk(c):
        if x.get("kind") == "ArraySubscriptExpr" and refs(x, P):
            return False
        if x.get("kind") in ("CallExpr", "CXXMemberCallExpr") and refs(x, P):
            return False
        if x.get("kind") == "UnaryOperator" and x.get("opcode") in ("*", "++", "--") and refs(x, P):
            return False
    return True


def translate_stmt(s, P, N, out, helpers):
    """append stmt terms for statement s (only called when s mentions P)"""
    k = s.get("kind")
    if k == "CompoundStmt":
        for c in s.get("inner", []) or []:
            if refs(c, P):
                translate_stmt(c, P, N, out, helpers)
        return
    if k == "IfStmt":
        inner = s["inner"]
        cond, then = inner[0], inner[1]
        els = inner[2] if len(inner) > 2 else None
        if refs(cond, P) and not cond_only_nullchecks_ptr(cond, P):
            out.append("Unrecognised")
            return
        if cond_is_n_positive(cond, N) and els is None:
            body = []
            if refs(then, P):
                translate_stmt(then, P, N, body, helpers)
            out.append("(IfPos [%s])" % "; ".join(body))
            return
        if refs(cond, N):
            out.append("Unrecognised")
            return
        # a condition unrelated to the buffer: the copy happens on the path where it does;
        # the property is about that path, so the body is taken unconditionally.
        if refs(then, P):
            translate_stmt(then, P, N, out, helpers)
        if els is not None and refs(els, P):
            # two alternative copies: cannot be expressed -> refuse
            out.append("Unrecognised")
        return
    if k in ("ReturnStmt",) and s.get("inner") and not refs(s, P):
        return
    e = strip(s)
    c = callee_name(e)
    if c in ("strncpy", "memcpy", "snprintf"):
        args = e["inner"][1:]
        if not is_ref(args[0], P):
            out.append("Unrecognised")
            return
        if c == "snprintf":
            fmt = strip(args[2]) if len(args) > 2 else {}
            if len(args) == 4 and fmt.get("kind") == "StringLiteral" and fmt.get("value") == '"%s"' and not refs(args[3], P):
                out.append("(Snprintf %s)" % size_expr(args[1], P, N))
            else:
                out.append("Unrecognised")
            return
        if refs(args[1], P) or len(args) != 3:
            out.append("Unrecognised")
            return
        out.append("(%s %s)" % ("Strncpy" if c == "strncpy" else "Memcpy", size_expr(args[2], P, N)))
        return
    if e.get("kind") == "BinaryOperator" and e.get("opcode") == "=":
        lhs, rhs = e["inner"]
        lhs = strip(lhs)
        if lhs.get("kind") == "ArraySubscriptExpr" and is_ref(lhs["inner"][0], P) and int_lit(rhs) == 0:
            out.append("(PokeNul %s)" % size_expr(lhs["inner"][1], P, N))
            return
        out.append("Unrecognised")
        return
    if c is not None and c in helpers:
        # one-level inlining of a helper f(dest, ..., size)
        h = helpers[c]
        args = e["inner"][1:]
        hp = [p for p in h.get("inner", []) if p.get("kind") == "ParmVarDecl"]
        pi = [i for i, a in enumerate(args) if is_ref(a, P)]
        ni = [i for i, a in enumerate(args) if is_ref(a, N)]
        body = [x for x in h.get("inner", []) if x.get("kind") == "CompoundStmt"]
        if len(pi) == 1 and len(ni) == 1 and body and len(hp) == len(args):
            translate_stmt(body[0], hp[pi[0]]["name"], hp[ni[0]]["name"], out, {})
            return
    out.append("Unrecognised")


def find_sites(objs):
    fns = {}
    for o in objs:
        if o.get("kind") == "FunctionDecl" and any(c.get("kind") == "CompoundStmt" for c in o.get("inner", []) or []):
            fns[o["name"]] = o
    sites = []
    for name, f in fns.items():
        ps = [c for c in f.get("inner", []) if c.get("kind") == "ParmVarDecl"]
        for a, b in zip(ps, ps[1:]):
            ta, tb = a["type"]["qualType"], b["type"].get("desugaredQualType", b["type"]["qualType"])
            if ta == "char *" and (b["type"]["qualType"] in ("size_t", "std::size_t") or tb == "unsigned long"):
                body = [x for x in f["inner"] if x.get("kind") == "CompoundStmt"][0]
                out = []
                if refs(body, a["name"]):
                    translate_stmt(body, a["name"], b["name"], out, fns)
                line = f.get("loc", {}).get("line") or f.get("loc", {}).get("spellingLoc", {}).get("line")
                sites.append((name, out, line))
    return sites


def lexical_count():
    """independent count of (char* x, size_t y) function definitions, to make sure the AST walk missed none"""
    n = 0
    names = []
    for rel in ("src/rime_api.cc", "src/rime_api_impl.h"):
        src = open(os.path.join(vlib.REPO, rel)).read()
        src = re.sub(r"//[^\n]*", "", src)
        for m in re.finditer(r"(\w+)\s*\(([^()]*\bchar\s*\*\s*\w+\s*,\s*(?:std::)?size_t\s+\w+[^()]*)\)\s*\{", src):
            names.append(m.group(1))
            n += 1
    return sorted(set(names))


def generate():
    objs = clang_ast(os.path.join(vlib.REPO, "src", "rime_api.cc"), "Rime")
    sites = find_sites(objs)
    sites.sort(key=lambda s: s[0])
    lex = lexical_count()
    missing = [n for n in lex if n not in [s[0] for s in sites]]
    for n in missing:
        # a (char*, size_t) function the AST filter did not show: look it up by name
        extra = find_sites(clang_ast(os.path.join(vlib.REPO, "src", "rime_api.cc"), n))
        got = [s for s in extra if s[0] == n]
        sites += got if got else [(n, ["Unrecognised"], None)]
    sites.sort(key=lambda s: s[0])
    lines = ["(* GENERATED by /verif/gen/copy_sites.py from %s/src/rime_api.cc (clang AST) - do not edit *)" % vlib.REPO,
             "From Coq Require Import List String.", "From RimeV Require Import Buf.CopyModel.",
             "Import ListNotations.", "Local Open Scope string_scope.", "",
             "Definition copy_sites : list site := ["]
    items = []
    for name, prog, line in sites:
        items.append('  {| site_name := "%s"; site_prog := [%s] |}' % (name, "; ".join(prog)))
    lines.append(";\n".join(items))
    lines.append("].")
    vlib.write_if_changed(os.path.join(vlib.COQ, "Gen", "CopySites.v"), "\n".join(lines) + "\n")
    return sites


if __name__ == "__main__":
    for name, prog, line in generate():
        print("%-32s line %-5s [%s]" % (name, line, "; ".join(prog)))
