#!/usr/bin/env python3
"""Translator for C19: src/rime/key_table.cc (+ key_table.h, X11 keysym.h) -> coq/Gen/KeyTable.v.

Narrow lexical extraction of the *data* of the key tables:
  * `modifier_name[]`  -> list (option bytes)          (slot i = bit i)
  * `key_names[]`      -> the packed blob, byte for byte, WITH its NUL bytes
                          (plus the implicit terminator of the string literal)
  * `keys_by_keyval[]`, `keys_by_name[]` -> list (Z * N)  (keyval, OFFSET)
    -- offsets are re-emitted, never resolved: a wrong offset or a missing
       terminator is exactly the fault class the theorems are about
  * `kModifierMask` (enum RimeModifier in key_table.h), `XK_VoidSymbol`
    (value the preprocessor gives it for this build).
Whatever does not have the expected shape makes the translator refuse: it then
emits `translation_ok := false` (and empty tables), on which every theorem of
Properties_C19.v fails.  Nothing is guessed.
"""
import os
import re
import subprocess
import sys

HERE = os.path.dirname(os.path.abspath(__file__))
sys.path.insert(0, os.path.join(os.path.dirname(HERE), "lib"))
import vlib  # noqa: E402


class Refuse(Exception):
    pass


def strip_comments(src):
    """remove // and /* */ comments outside string/char literals"""
    out, i, n = [], 0, len(src)
    while i < n:
        c = src[i]
        if c == '"' or c == "'":
            q = c
            j = i + 1
            while j < n and src[j] != q:
                j += 2 if src[j] == "\\" else 1
            out.append(src[i:j + 1])
            i = j + 1
        elif src.startswith("//", i):
            j = src.find("\n", i)
            i = n if j < 0 else j
        elif src.startswith("/*", i):
            j = src.find("*/", i + 2)
            i = n if j < 0 else j + 2
            out.append(" ")
        else:
            out.append(c)
            i += 1
    return "".join(out)


def c_unescape(lit):
    """bytes of ONE C string literal body (escapes are per literal, before concatenation)"""
    out, i, n = [], 0, len(lit)
    simple = {"n": 10, "t": 9, "r": 13, "\\": 92, '"': 34, "'": 39, "a": 7, "b": 8, "f": 12, "v": 11, "?": 63}
    while i < n:
        c = lit[i]
        if c != "\\":
            o = ord(c)
            if o > 127:
                out += list(c.encode("utf-8"))
            else:
                out.append(o)
            i += 1
            continue
        i += 1
        if i >= n:
            raise Refuse("dangling backslash in string literal")
        c = lit[i]
        if c in "01234567":
            j = i
            while j < n and j < i + 3 and lit[j] in "01234567":
                j += 1
            v = int(lit[i:j], 8)
            if v > 255:
                raise Refuse("octal escape out of range")
            out.append(v)
            i = j
        elif c == "x":
            j = i + 1
            while j < n and lit[j] in "0123456789abcdefABCDEF":
                j += 1
            if j == i + 1:
                raise Refuse("bad \\x escape")
            v = int(lit[i + 1:j], 16)
            if v > 255:
                raise Refuse("hex escape out of range")
            out.append(v)
            i = j
        elif c in simple:
            out.append(simple[c])
            i += 1
        else:
            raise Refuse("unsupported escape \\%s" % c)
    return out


STR = r'"((?:[^"\\\n]|\\.)*)"'


def initializer(src, decl_re, what):
    m = re.search(decl_re, src)
    if not m:
        raise Refuse("declaration of %s not found" % what)
    j = src.find(";", m.end())
    # the first ';' outside a string literal
    i = m.end()
    while True:
        j = src.find(";", i)
        q = src.find('"', i)
        if j < 0:
            raise Refuse("unterminated initialiser of %s" % what)
        if 0 <= q < j:
            mm = re.compile(STR).match(src, q)
            if not mm:
                raise Refuse("bad string literal in %s" % what)
            i = mm.end()
            continue
        return src[m.end():j]


def c_int(tok, consts):
    tok = tok.strip()
    if re.fullmatch(r"0[xX][0-9a-fA-F]+", tok):
        return int(tok, 16)
    if re.fullmatch(r"0[0-7]*", tok):
        return int(tok, 8) if len(tok) > 1 else 0
    if re.fullmatch(r"[1-9][0-9]*", tok):
        return int(tok)
    if tok in consts:
        return consts[tok]
    raise Refuse("not an integer constant: %r" % tok)


def parse_entries(body, what, consts):
    body = body.strip()
    if not (body.startswith("{") and body.endswith("}")):
        raise Refuse("%s: initialiser is not a brace list" % what)
    inner = body[1:-1]
    ents = []
    pos = 0
    for m in re.finditer(r"\{\s*([^{},]+?)\s*,\s*([^{},]+?)\s*\}\s*(,|$)", inner):
        if inner[pos:m.start()].strip():
            raise Refuse("%s: unexpected text %r" % (what, inner[pos:m.start()][:40]))
        ents.append((c_int(m.group(1), consts), c_int(m.group(2), consts)))
        pos = m.end()
    if inner[pos:].strip():
        raise Refuse("%s: unexpected trailing text %r" % (what, inner[pos:][:40]))
    if not ents:
        raise Refuse("%s: no entries" % what)
    return ents


def preprocessor_value(name):
    """value the preprocessor gives `name` after #include <X11/keysym.h> (as the code sees it)"""
    cmd = ["g++", "-std=c++17", "-E", "-P", "-I%s/src" % vlib.REPO, "-I%s/include" % vlib.REPO, "-x", "c++", "-"]
    p = subprocess.run(cmd, input="#include <X11/keysym.h>\nVERIF_VALUE %s\n" % name, stdout=subprocess.PIPE,
                       stderr=subprocess.PIPE, text=True, timeout=120)
    m = re.search(r"VERIF_VALUE\s+(\S+)", p.stdout)
    if p.returncode != 0 or not m:
        raise Refuse("cannot preprocess %s: %s" % (name, p.stderr[-300:]))
    return c_int(m.group(1), {})


def parse_enum(hsrc):
    m = re.search(r"typedef\s+enum\s*\{(.*?)\}\s*RimeModifier\s*;", hsrc, re.S)
    if not m:
        raise Refuse("enum RimeModifier not found in key_table.h")
    vals = {}
    for item in m.group(1).split(","):
        item = item.strip()
        if not item:
            continue
        mm = re.fullmatch(r"(\w+)\s*=\s*(.+)", item, re.S)
        if not mm:
            raise Refuse("enum item without value: %r" % item)
        name, e = mm.group(1), mm.group(2).strip()
        ms = re.fullmatch(r"(\w+)\s*<<\s*(\w+)", e)
        if ms:
            v = c_int(ms.group(1), vals) << c_int(ms.group(2), vals)
        else:
            v = c_int(e, vals)
        vals[name] = v
    return vals


def parse_source():
    src = strip_comments(open(os.path.join(vlib.REPO, "src", "rime", "key_table.cc"), encoding="utf-8-sig").read())
    hsrc = strip_comments(open(os.path.join(vlib.REPO, "src", "rime", "key_table.h"), encoding="utf-8-sig").read())
    enum = parse_enum(hsrc)
    if "kModifierMask" not in enum:
        raise Refuse("kModifierMask not in enum RimeModifier")
    void = preprocessor_value("XK_VoidSymbol")
    consts = {"XK_VoidSymbol": void}
    # modifier_name
    body = initializer(src, r"static\s+const\s+char\s*\*\s*modifier_name\s*\[\s*\]\s*=", "modifier_name").strip()
    if not (body.startswith("{") and body.endswith("}")):
        raise Refuse("modifier_name: not a brace list")
    mods = []
    for tok in [t.strip() for t in body[1:-1].split(",")]:
        if tok == "":
            continue
        if tok in ("NULL", "nullptr", "0"):
            mods.append(None)
        else:
            mm = re.fullmatch(STR, tok)
            if not mm:
                raise Refuse("modifier_name: unexpected element %r" % tok)
            mods.append(c_unescape(mm.group(1)))
    # key_names
    body = initializer(src, r"static\s+const\s+char\s+key_names\s*\[\s*\]\s*=", "key_names")
    blob, pos = [], 0
    lits = 0
    for mm in re.finditer(STR, body):
        if body[pos:mm.start()].strip():
            raise Refuse("key_names: unexpected text between literals: %r" % body[pos:mm.start()][:40])
        blob += c_unescape(mm.group(1))
        pos = mm.end()
        lits += 1
    if body[pos:].strip() or lits == 0:
        raise Refuse("key_names: unexpected text after literals")
    blob.append(0)  # the implicit terminator of the concatenated literal (sizeof counts it)
    # entry tables
    if not re.search(r"typedef\s+struct\s*\{\s*int\s+keyval\s*;\s*int\s+offset\s*;\s*\}\s*key_entry\s*;", src):
        raise Refuse("key_entry is not {int keyval; int offset;}")
    byval = parse_entries(initializer(src, r"static\s+const\s+key_entry\s+keys_by_keyval\s*\[\s*\]\s*=", "keys_by_keyval"),
                          "keys_by_keyval", consts)
    byname = parse_entries(initializer(src, r"static\s+const\s+key_entry\s+keys_by_name\s*\[\s*\]\s*=", "keys_by_name"),
                           "keys_by_name", consts)
    for k, off in byval + byname:
        if off < 0 or not (-2 ** 31 <= k < 2 ** 31):
            raise Refuse("entry out of int range / negative offset: (%d, %d)" % (k, off))
    return dict(mods=mods, blob=blob, byval=byval, byname=byname, mask=enum["kModifierMask"], void=void, enum=enum)


def coq_bytes(bs):
    return "[" + "; ".join("x%02x" % b for b in bs) + "]"


def emit(t, reason=None):
    L = ["(** GENERATED by /verif/gen/key_table.py from src/rime/key_table.cc, key_table.h and X11/keysym.h.",
         "    Do not edit; regenerated on every check. *)",
         "From Coq Require Import List ZArith NArith.",
         "From Coq.Strings Require Import Byte.",
         "Import ListNotations.",
         "Local Open Scope Z_scope.",
         ""]
    if t is None:
        L += ["(* translator refused: %s *)" % (reason or "").replace("*)", "* )"),
              "Definition translation_ok : bool := false.",
              "Definition modifier_name : list (option (list byte)) := [].",
              "Definition key_names : list byte := [].",
              "Definition keys_by_keyval : list (Z * N) := [].",
              "Definition keys_by_name : list (Z * N) := [].",
              "Definition kModifierMask : Z := 0.",
              "Definition XK_VoidSymbol : Z := 0.", ""]
        return "\n".join(L)
    L.append("Definition translation_ok : bool := true.")
    L.append("")
    L.append("Definition modifier_name : list (option (list byte)) := [")
    rows = []
    for i, m in enumerate(t["mods"]):
        rows.append("  (* %2d *) %s" % (i, "None" if m is None else "Some %s" % coq_bytes(m)))
    L.append(";\n".join(rows))
    L.append("].")
    L.append("")
    L.append("(* %d bytes, NULs included, the literal's implicit terminator last *)" % len(t["blob"]))
    L.append("Definition key_names : list byte := [")
    rows, cur = [], []
    for b in t["blob"]:
        cur.append("x%02x" % b)
        if b == 0 or len(cur) >= 24:
            rows.append("  " + "; ".join(cur))
            cur = []
    if cur:
        rows.append("  " + "; ".join(cur))
    L.append(";\n".join(rows))
    L.append("].")
    L.append("")
    for nm in ("byval", "byname"):
        L.append("Definition %s : list (Z * N) := [" % ("keys_by_keyval" if nm == "byval" else "keys_by_name"))
        ents = ["(%d, %d%%N)" % (k, off) if k >= 0 else "((%d), %d%%N)" % (k, off) for k, off in t[nm]]
        rows = ["  " + "; ".join(ents[i:i + 6]) for i in range(0, len(ents), 6)]
        L.append(";\n".join(rows))
        L.append("].")
        L.append("")
    L.append("Definition kModifierMask : Z := %d. (* 0x%x *)" % (t["mask"], t["mask"]))
    L.append("Definition XK_VoidSymbol : Z := %d. (* 0x%x *)" % (t["void"], t["void"]))
    L.append("")
    return "\n".join(L)


def generate(verbose=False):
    """(Re)write coq/Gen/KeyTable.v from the current source; returns the parsed tables (or None when refusing)."""
    out = os.path.join(vlib.COQ, "Gen", "KeyTable.v")
    try:
        t = parse_source()
        txt = emit(t)
    except (Refuse, OSError, UnicodeError, subprocess.SubprocessError) as e:
        t = None
        txt = emit(None, "%s: %s" % (type(e).__name__, e))
        if verbose:
            print("key_table.py: REFUSED:", e)
    vlib.write_if_changed(out, txt)
    if verbose and t:
        print("key_table.py: %d modifier slots (%d named), blob %d bytes, keys_by_keyval %d, keys_by_name %d, "
              "kModifierMask=0x%x XK_VoidSymbol=0x%x" % (len(t["mods"]), sum(1 for m in t["mods"] if m is not None),
                                                         len(t["blob"]), len(t["byval"]), len(t["byname"]), t["mask"], t["void"]))
    return t


if __name__ == "__main__":
    generate(verbose=True)
