"""Translator: default key maps of Editor / Navigator / Selector -> coq/Gen/Keymaps.v.

Narrow lexical extraction from the CURRENT source:
  src/rime/gear/editor.cc     FluidEditor::FluidEditor / ExpressEditor::ExpressEditor
                              `keymap.Bind({XK_x, mask}, &Editor::Action);`, `char_handler_ = &Editor::H;`
  src/rime/gear/navigator.cc  blocks `auto& keymap = get_keymap(Horizontal|Vertical);`
  src/rime/gear/selector.cc   blocks `get_keymap(Horizontal|Vertical | Stacked|Linear);`
  include/X11/keysymdef.h     values of the XK_ names
  src/rime/key_table.h        values of the k...Mask names
Every statement of a constructor body that mentions `Bind` or `char_handler_`
must match one of the shapes above; anything else becomes an `...Unrecognised`
entry and `keymaps_recognised := false`, which makes the theorems that depend on
the maps fail (the translator refuses rather than guesses).
"""
import os
import re
import sys

sys.path.insert(0, os.path.join(os.path.dirname(os.path.abspath(__file__)), "..", "lib"))
import vlib  # noqa: E402

EDITOR = {"Confirm": "EdConfirm", "ToggleSelection": "EdToggleSelection", "CommitComment": "EdCommitComment",
          "CommitRawInput": "EdCommitRawInput", "CommitScriptText": "EdCommitScriptText",
          "CommitComposition": "EdCommitComposition", "RevertLastEdit": "EdRevertLastEdit",
          "BackToPreviousInput": "EdBackToPreviousInput", "BackToPreviousSyllable": "EdBackToPreviousSyllable",
          "DeleteCandidate": "EdDeleteCandidate", "DeleteChar": "EdDeleteChar",
          "CancelComposition": "EdCancelComposition"}
CHAR = {"DirectCommit": "CHDirectCommit", "AddToInput": "CHAddToInput"}
NAV = {"Rewind": "NavRewind", "LeftByChar": "NavLeftByChar", "RightByChar": "NavRightByChar",
       "LeftBySyllable": "NavLeftBySyllable", "RightBySyllable": "NavRightBySyllable", "Home": "NavHome",
       "End": "NavEnd"}
SEL = {"PreviousCandidate": "SelPreviousCandidate", "NextCandidate": "SelNextCandidate",
       "PreviousPage": "SelPreviousPage", "NextPage": "SelNextPage", "Home": "SelHome", "End": "SelEnd"}


def _strip_comments(src):
    src = re.sub(r"/\*.*?\*/", " ", src, flags=re.S)
    return re.sub(r"//[^\n]*", "", src)


def _keysyms():
    vals = {}
    for line in open(os.path.join(vlib.REPO, "include", "X11", "keysymdef.h"), errors="replace"):
        m = re.match(r"#define\s+(XK_\w+)\s+(0x[0-9a-fA-F]+)", line)
        if m:
            vals[m.group(1)] = int(m.group(2), 16)
    return vals


def _masks():
    vals = {}
    src = _strip_comments(open(os.path.join(vlib.REPO, "src", "rime", "key_table.h"), errors="replace").read())
    for m in re.finditer(r"\b(k\w+Mask)\s*=\s*1\s*<<\s*(\d+)", src):
        vals[m.group(1)] = 1 << int(m.group(2))
    for m in re.finditer(r"\b(k\w+Mask)\s*=\s*(k\w+Mask)\s*,", src):
        if m.group(2) in vals:
            vals[m.group(1)] = vals[m.group(2)]
    return vals


def _mask_value(expr, masks):
    expr = expr.strip()
    if expr == "0":
        return 0
    v = 0
    for part in expr.split("|"):
        part = part.strip()
        if part not in masks:
            return None
        v |= masks[part]
    return v


def _body(src, header_re):
    """Body (between the braces) of the function whose header matches header_re."""
    m = re.search(header_re, src)
    if not m:
        return None
    i = src.index("{", m.end() - 1) if src[m.end() - 1] != "{" else m.end() - 1
    depth, j = 0, i
    while j < len(src):
        if src[j] == "{":
            depth += 1
        elif src[j] == "}":
            depth -= 1
            if depth == 0:
                return src[i + 1:j]
        j += 1
    return None


BIND = re.compile(r"^keymap\.Bind\(\s*\{\s*(XK_\w+)\s*,\s*([^}]*?)\s*\}\s*,\s*&(\w+)::(\w+)\s*\)$")


def _binds(stmts, cls, table, unrec, ks, masks, log):
    out = []
    for s in stmts:
        s = " ".join(s.split())
        if "Bind" not in s:
            continue
        m = BIND.match(s)
        ok = False
        if m and m.group(3) == cls and m.group(4) in table and m.group(1) in ks:
            mv = _mask_value(m.group(2), masks)
            if mv is not None:
                out.append((ks[m.group(1)], mv, table[m.group(4)], s))
                ok = True
        if not ok:
            out.append((0, 0, unrec, s))
            log.append("UNRECOGNISED: " + s)
    return out


def _stmts(body):
    """Statements of a constructor body: split on ';' and drop the block braces that
    start/end the `{ auto& keymap = ...; ... }` scopes (initialiser braces stay)."""
    out = []
    for x in body.split(";"):
        x = " ".join(x.split()).lstrip("{} ").strip()
        if x:
            out.append(x)
    return out


def _blocks(body, _unused=None):
    """Group the statements by the preceding `auto& keymap = get_keymap(SEL)`."""
    res, cur = {}, None
    for s in _stmts(body):
        m = re.match(r"^auto& keymap = get_keymap\(\s*([^)]*?)\s*\)$", s)
        if m:
            cur = " ".join(m.group(1).split())
            res.setdefault(cur, [])
        elif "Bind" in s and cur is not None:
            res[cur].append(s)
    return res


def extract():
    ks, masks = _keysyms(), _masks()
    log = []
    ok = True
    gear = os.path.join(vlib.REPO, "src", "rime", "gear")
    ed = _strip_comments(open(os.path.join(gear, "editor.cc")).read())
    maps = {}
    handlers = {}
    for name, hdr in (("fluid", r"FluidEditor::FluidEditor\s*\([^)]*\)[^{]*\{"),
                      ("express", r"ExpressEditor::ExpressEditor\s*\([^)]*\)[^{]*\{")):
        body = _body(ed, hdr)
        if body is None:
            maps[name + "_editor_binds"] = [(0, 0, "EdUnrecognised", "constructor not found")]
            handlers[name] = "CHUnrecognised"
            ok = False
            continue
        st = _stmts(body)
        maps[name + "_editor_binds"] = _binds(st, "Editor", EDITOR, "EdUnrecognised", ks, masks, log)
        hs = [s for s in st if "char_handler_" in s]
        h = "CHUnrecognised"
        if len(hs) == 1:
            m = re.match(r"^char_handler_\s*=\s*&Editor::(\w+)$", " ".join(hs[0].split()))
            if m and m.group(1) in CHAR:
                h = CHAR[m.group(1)]
        elif not hs:
            h = "CHNone"
        handlers[name] = h
        # the constructor must contain nothing else that touches the key map
        for s in st:
            s1 = " ".join(s.split())
            if not (s1.startswith("keymap.Bind(") or s1.startswith("char_handler_") or s1 == "auto& keymap = get_keymap()"
                    or s1 == "LoadConfig()"):
                log.append("UNRECOGNISED statement in %s editor constructor: %s" % (name, s1))
                maps[name + "_editor_binds"].append((0, 0, "EdUnrecognised", s1))
    nav = _strip_comments(open(os.path.join(gear, "navigator.cc")).read())
    nb = _body(nav, r"Navigator::Navigator\s*\([^)]*\)[^{]*\{") or ""
    blocks = _blocks(nb, None)
    for sel, key in (("Horizontal", "nav_horizontal_binds"), ("Vertical", "nav_vertical_binds")):
        if sel in blocks:
            maps[key] = _binds(blocks[sel], "Navigator", NAV, "NavUnrecognised", ks, masks, log)
        else:
            maps[key] = [(0, 0, "NavUnrecognised", "block get_keymap(%s) not found" % sel)]
    if nb.count("Bind(") != sum(len(b) for b in blocks.values()) or len(blocks) != 2:
        maps["nav_horizontal_binds"].append((0, 0, "NavUnrecognised", "Bind outside the two recognised blocks"))
    sl = _strip_comments(open(os.path.join(gear, "selector.cc")).read())
    sb = _body(sl, r"Selector::Selector\s*\([^)]*\)[^{]*\{") or ""
    blocks = _blocks(sb, None)
    for sel, key in (("Horizontal | Stacked", "sel_hs_binds"), ("Horizontal | Linear", "sel_hl_binds"),
                     ("Vertical | Stacked", "sel_vs_binds"), ("Vertical | Linear", "sel_vl_binds")):
        if sel in blocks:
            maps[key] = _binds(blocks[sel], "Selector", SEL, "SelUnrecognised", ks, masks, log)
        else:
            maps[key] = [(0, 0, "SelUnrecognised", "block get_keymap(%s) not found" % sel)]
    if sb.count("Bind(") != sum(len(b) for b in blocks.values()) or len(blocks) != 4:
        maps["sel_hs_binds"].append((0, 0, "SelUnrecognised", "Bind outside the four recognised blocks"))
    for k, v in maps.items():
        if any("Unrecognised" in e[2] for e in v) or not v:
            ok = False
    if any("Unrecognised" in h for h in handlers.values()):
        ok = False
    return maps, handlers, ok, log


TYPES = {"fluid_editor_binds": "editor_action", "express_editor_binds": "editor_action",
         "nav_horizontal_binds": "nav_action", "nav_vertical_binds": "nav_action",
         "sel_hs_binds": "sel_action", "sel_hl_binds": "sel_action", "sel_vs_binds": "sel_action",
         "sel_vl_binds": "sel_action"}


def generate():
    maps, handlers, ok, log = extract()
    out = ["(** GENERATED by gen/keymaps.py from src/rime/gear/{editor,navigator,selector}.cc - do not edit. *)",
           "From Coq Require Import List ZArith.", "From RimeV Require Import Eng.Keys.", "Import ListNotations.",
           "Local Open Scope Z_scope.", ""]
    for name in sorted(TYPES):
        out.append("Definition %s : list (Z * Z * %s) := [" % (name, TYPES[name]))
        ents = maps[name]
        for i, (code, mask, act, src) in enumerate(ents):
            out.append("  (%d, %d, %s)%s  (* %s *)" % (code, mask, act, ";" if i + 1 < len(ents) else "",
                                                      src.replace("(*", "( *").replace("*)", "* )")))
        out.append("].")
        out.append("")
    out.append("Definition fluid_char_handler : char_handler := %s." % handlers.get("fluid", "CHUnrecognised"))
    out.append("Definition express_char_handler : char_handler := %s." % handlers.get("express", "CHUnrecognised"))
    out.append("Definition keymaps_recognised : bool := %s." % ("true" if ok else "false"))
    out.append("")
    vlib.write_if_changed(os.path.join(vlib.COQ, "Gen", "Keymaps.v"), "\n".join(out))
    return maps, handlers, ok, log


if __name__ == "__main__":
    maps, handlers, ok, log = generate()
    for k in sorted(maps):
        print(k, len(maps[k]))
    print(handlers, "recognised:", ok)
    for l in log:
        print(l)
