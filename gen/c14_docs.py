"""C14: generator of YAML document sets from the config compiler's directive
grammar, their serialisations (YAML text for librime, token stream for the
extracted Coq model) and the canonical tree syntax shared by harness and model.

A document is a nested tuple:  ('N',) | ('S', str) | ('L', [doc]) | ('M', [(key, doc)])
(maps keep document order).  No model logic lives here: the generator only
chooses documents; what they compile to is decided by librime and by the
Coq models.
"""
import random

N = ('N',)


def S(s):
    return ('S', s)


def L(xs):
    return ('L', list(xs))


def M(kv):
    return ('M', list(kv))


# --------------------------------------------------------------------------- serialisation

def _q(s):
    assert '"' not in s and '\\' not in s and '\n' not in s
    return '"%s"' % s


def flow(y):
    t = y[0]
    if t == 'N':
        return '~'
    if t == 'S':
        return _q(y[1])
    if t == 'L':
        return '[' + ', '.join(flow(x) for x in y[1]) + ']'
    return '{' + ', '.join('%s: %s' % (_q(k), flow(v)) for k, v in y[1]) + '}'


def to_yaml(y):
    """YAML text: top-level map in block style, everything below in flow style,
    every scalar double-quoted (so yaml-cpp reads exactly these strings)."""
    if y[0] == 'M' and y[1]:
        return ''.join('%s: %s\n' % (_q(k), flow(v)) for k, v in y[1])
    return flow(y) + '\n'


def hexs(s):
    h = s.encode('utf-8').hex()
    return h if h else '-'


def tokens(y):
    t = y[0]
    if t == 'N':
        return ['N']
    if t == 'S':
        return ['S' + hexs(y[1])]
    if t == 'L':
        out = ['L%d' % len(y[1])]
        for x in y[1]:
            out += tokens(x)
        return out
    out = ['M%d' % len(y[1])]
    for k, v in y[1]:
        out.append('K' + hexs(k))
        out += tokens(v)
    return out


# --------------------------------------------------------------------------- canonical trees

def parse_canon(s):
    """'~' | '"hex"' | '[a,b]' | '{hexkey:v,...}'  ->  None | ('S',hex) | ('L',[..]) | ('M',[(hexkey,v)..])"""
    pos = [0]

    def p():
        c = s[pos[0]]
        if c == '~':
            pos[0] += 1
            return None
        if c == '"':
            e = s.index('"', pos[0] + 1)
            v = ('S', s[pos[0] + 1:e])
            pos[0] = e + 1
            return v
        if c == '[':
            pos[0] += 1
            xs = []
            while s[pos[0]] != ']':
                xs.append(p())
                if s[pos[0]] == ',':
                    pos[0] += 1
            pos[0] += 1
            return ('L', xs)
        if c == '{':
            pos[0] += 1
            kv = []
            while s[pos[0]] != '}':
                e = s.index(':', pos[0])
                k = s[pos[0]:e]
                pos[0] = e + 1
                kv.append((k, p()))
                if s[pos[0]] == ',':
                    pos[0] += 1
            pos[0] += 1
            return ('M', kv)
        raise ValueError('bad canon at %d: %r' % (pos[0], s[pos[0]:pos[0] + 20]))
    v = p()
    if pos[0] != len(s):
        raise ValueError('trailing canon text')
    return v


def unparse_canon(v):
    if v is None:
        return '~'
    if v[0] == 'S':
        return '"%s"' % v[1]
    if v[0] == 'L':
        return '[' + ','.join(unparse_canon(x) for x in v[1]) + ']'
    return '{' + ','.join('%s:%s' % (k, unparse_canon(x)) for k, x in v[1]) + '}'


def saved_form(v):
    """What EmitYaml writes and LoadFromFile reads back: null map entries and
    null list elements are not emitted; an empty/null root loads as null."""
    if v is None:
        return None
    if v[0] == 'S':
        return v
    if v[0] == 'L':
        return ('L', [saved_form(x) for x in v[1] if x is not None])
    return ('M', [(k, saved_form(x)) for k, x in v[1] if x is not None])


def observed_root(v):
    """BuildInfoPlugin turns a non-map root into a map holding only
    __build_info (which is not printed)."""
    if v is not None and v[0] == 'M':
        return v
    return ('M', [])


def pretty(v, hexkeys=True):
    """human readable rendering of a canonical tree (for replays)"""
    def un(h):
        try:
            return bytes.fromhex(h).decode('utf-8', 'replace')
        except ValueError:
            return h
    if v is None:
        return None
    if v[0] == 'S':
        return un(v[1])
    if v[0] == 'L':
        return [pretty(x) for x in v[1]]
    return {un(k): pretty(x) for k, x in v[1]}


# --------------------------------------------------------------------------- generator

KEYS = ['a', 'b', 'c', 'd', 'e']
WORDS = ['x', 'y', 'zed', 'w1', 'q', '', 'v 2', 'k_9']


class Gen:
    """One document set.  mode: 'acyclic' (references only go to earlier
    documents / earlier sections, no local reference below a node with
    directives of its own), 'cyclic' (unconstrained references plus planted
    cycles)."""

    def __init__(self, rng, mode):
        self.r = rng
        self.mode = mode
        self.docs = {}        # id -> doc (insertion order = dependency order)
        self.mid_index_forms = rng.random() < 0.3
        self.feat = {}        # feature -> count

    def f(self, name):
        self.feat[name] = self.feat.get(name, 0) + 1

    # ---- plain values
    def scalar(self):
        return S(self.r.choice(WORDS))

    def plain(self, depth):
        r = self.r.random()
        if depth <= 0 or r < 0.35:
            return self.scalar()
        if r < 0.5:
            return L([self.scalar() for _ in range(self.r.randint(0, 3))])
        if r < 0.6:
            return L([self.plain(depth - 1) for _ in range(self.r.randint(1, 2))])
        if r < 0.65:
            return N
        ks = self.r.sample(KEYS, self.r.randint(0, 3))
        return M([(k, self.plain(depth - 1)) for k in ks])

    # ---- source shapes (used only to aim references and patch paths)
    def src_at(self, did, keys, hops=3):
        y = self.docs.get(did)
        for k in keys:
            if y is None:
                return None
            y = self.src_child(did, y, k, hops)
        return y

    def src_child(self, did, y, k, hops=3):
        if y[0] == 'M':
            for kk, v in y[1]:
                if kk == k:
                    return v
            if hops > 0:
                for kk, v in y[1]:
                    if kk == '__include' and v[0] == 'S':
                        t = self.ref_target(did, v[1])
                        if t is not None:
                            inc = self.src_at(t[0], t[1], hops - 1)
                            if inc is not None:
                                return self.src_child(t[0], inc, k, hops - 1)
            return None
        if y[0] == 'L' and k.startswith('@'):
            n = len(y[1])
            try:
                if k == '@last':
                    i = n - 1
                elif k == '@before last':
                    i = n - 1
                elif k.startswith('@before '):
                    i = int(k[8:])
                elif k.startswith('@after '):
                    i = int(k[7:]) + 1
                else:
                    i = int(k[1:])
            except ValueError:
                return None
            return y[1][i] if 0 <= i < n else None
        return None

    def ref_target(self, cur, ref):
        ref = ref.rstrip('?')
        if ':' in ref:
            d, p = ref.split(':', 1)
            d = d or cur
            if d.endswith('.yaml'):
                d = d[:-5]
        else:
            d, p = cur, ref
        return d, [k for k in p.strip('/').split('/') if k]

    def random_path(self, did, y, maxdepth, want=None):
        """random walk down the source; returns list of keys"""
        keys = []
        for _ in range(self.r.randint(0, maxdepth)):
            if y is None:
                break
            if y[0] == 'M':
                cand = [k for k, v in y[1] if not k.startswith('__')]
                inc = [v for k, v in y[1] if k == '__include' and v[0] == 'S']
                if inc:
                    t = self.ref_target(did, inc[0][1])
                    s = self.src_at(t[0], t[1]) if t else None
                    if s is not None and s[0] == 'M':
                        cand += [k for k, v in s[1] if not k.startswith('__')]
                if not cand:
                    break
                k = self.r.choice(cand)
            elif y[0] == 'L' and y[1]:
                i = self.r.randrange(len(y[1]))
                k = '@%d' % i
                r = self.r.random()
                spell = k
                if r < 0.45:
                    # read-only resolution: @before N -> N, @after N -> N+1, leading zeros, @last
                    forms = ['@0%d' % i, '@before %d' % i]
                    if i > 0:
                        forms.append('@after %d' % (i - 1))
                    if i == len(y[1]) - 1:
                        forms += ['@last', '@last', '@before last']
                    spell = self.r.choice(forms)
                    self.f('ref:index-form:' + ''.join(c for c in spell if not c.isdigit()).strip())
                else:
                    self.f('ref:@N')
                keys.append(spell)
                y = self.src_child(did, y, k)
                continue
            else:
                break
            keys.append(k)
            y = self.src_child(did, y, k)
        return keys

    def fmt_ref(self, cur, did, keys, optional):
        p = '/'.join(keys)
        r = self.r.random()
        if did == cur:
            self.f('ref:local')
            s = [p, '/' + p, ':' + p, ':/' + p][self.r.randrange(4)] if p else ['/', ':/'][self.r.randrange(2)]
        else:
            self.f('ref:cross-file')
            name = did + '.yaml' if r < 0.15 else did
            s = name + ':/' + p if self.r.random() < 0.8 or not p else name + ':' + p
        if optional:
            self.f('ref:optional')
            s += '?'
        return s

    def choose_ref(self, cur, sec_index, own_blocking, want_map=False):
        """a reference string from document `cur` (being generated; its earlier
        sections are in self.cur_sections)"""
        r = self.r.random()
        if r < 0.08:
            self.f('ref:missing-optional')
            return self.r.choice(['nosuch:/x?', 'nosuch?', '/nosuch/deep?', cur + ':/zz/@7?'])
        if self.mode == 'cyclic' and r < 0.35:
            # anything, including ancestors and later sections of any document
            ids = list(self.docs) + [cur]
            did = self.r.choice(ids)
            y = self.cur_root() if did == cur else self.docs[did]
            keys = self.random_path(did, y, 3)
            return self.fmt_ref(cur, did, keys, self.r.random() < 0.2)
        earlier = [d for d in self.docs if not d.endswith('.custom')]
        local_ok = sec_index > 0 and not own_blocking and self.local_refs_allowed
        if local_ok and (not earlier or self.r.random() < 0.5):
            si = self.r.randrange(sec_index)
            k0, y0 = self.cur_sections[si]
            keys = [k0] + self.random_path(cur, y0, 2)
            return self.fmt_ref(cur, cur, keys, self.r.random() < 0.15)
        if earlier:
            did = self.r.choice(earlier)
            keys = self.random_path(did, self.docs[did], 3)
            if not keys and self.r.random() < 0.7:
                keys = self.random_path(did, self.docs[did], 3)
            return self.fmt_ref(cur, did, keys, self.r.random() < 0.15)
        self.f('ref:missing-optional')
        return 'nosuch:/x?'

    def cur_root(self):
        return M(self.cur_sections)

    # ---- patches
    def patch_map(self, did, target, in_override=False):
        """a literal map of edits aimed at the (source shape of the) target"""
        n = self.r.randint(1, 3)
        out, used = [], set()
        for _ in range(n):
            keys = self.random_path(did, target, 3) if target is not None else []
            node = target
            for k in keys:
                node = self.src_child(did, node, k) if node is not None else None
            if self.mid_index_forms and self.r.random() < 0.25:
                # an inserting / size-relative index form in the middle of the path
                for j, k in enumerate(keys[:-1]):
                    if k.startswith('@') and k[1:].isdigit():
                        keys[j] = self.r.choice(['@before %s' % k[1:], '@after %s' % k[1:], '@before last', '@last'])
                        self.f('patch:mid-path-index-form')
                        break
            r = self.r.random()
            if node is None or r < 0.2:
                keys = keys[:self.r.randint(0, len(keys))] + [self.r.choice(['n0', 'n1', 'a', 'b'])]
                self.f('patch:set-new')
                k, v = '/'.join(keys), self.plain(1)
            elif node[0] == 'L':
                form = self.r.choice(['@N', '@next', '@last', '@before N', '@after N', '@before last',
                                      '@after last', '/+', '/=', '@next', '@N'])
                self.f('patch:list:' + form)
                n_el = len(node[1])
                idx = self.r.randint(0, n_el + 1)
                base = '/'.join(keys)
                if form == '/+':
                    k, v = base + '/+', L([self.scalar() for _ in range(self.r.randint(0, 2))])
                elif form == '/=':
                    k, v = base + '/=', L([self.scalar() for _ in range(self.r.randint(0, 2))])
                else:
                    k = base + '/' + form.replace('N', str(idx))
                    v = self.scalar() if self.r.random() < 0.7 else self.plain(1)
            elif node[0] == 'M':
                form = self.r.choice(['/+', '/=', 'set', 'sub'])
                self.f('patch:map:' + form)
                base = '/'.join(keys)
                if form == '/+':
                    k, v = base + '/+', M([(self.r.choice(KEYS), self.plain(1))])
                elif form == '/=':
                    k, v = base + '/=', M([(self.r.choice(KEYS), self.scalar())])
                elif form == 'set':
                    k, v = base, self.plain(1)
                else:
                    k, v = (base + '/' if base else '') + self.r.choice(KEYS), self.plain(1)
                if k == '':
                    k, v = '__merge', M([(self.r.choice(KEYS), self.scalar())])
                    self.f('patch:__merge')
            else:
                form = self.r.choice(['set', '/+', '/='])
                self.f('patch:scalar:' + form)
                base = '/'.join(keys)
                if not base:
                    base = self.r.choice(KEYS)
                k = base + ('' if form == 'set' else form)
                v = self.scalar()
            if k in used or k == '':
                continue
            used.add(k)
            out.append((k, v))
        return M(out)

    def override_entries(self, did, target):
        """sibling keys next to an __include (merged over the included node)"""
        out, used = [], set()
        if target is None or target[0] != 'M':
            cands = []
        else:
            cands = [(k, v) for k, v in target[1] if not k.startswith('__')]
        for _ in range(self.r.randint(0, 3)):
            if cands and self.r.random() < 0.7:
                k, node = self.r.choice(cands)
                if node[0] == 'L':
                    form = self.r.choice(['__append', '/+', '/=', 'replace'])
                    self.f('override:list:' + form)
                    lst = L([self.scalar() for _ in range(self.r.randint(0, 2))])
                    e = {'__append': (k, M([('__append', lst)])), '/+': (k + '/+', lst),
                         '/=': (k + '/=', lst), 'replace': (k, lst)}[form]
                elif node[0] == 'M':
                    form = self.r.choice(['merge', '__merge', '/=', '/+'])
                    self.f('override:map:' + form)
                    sub = M([(self.r.choice(KEYS), self.plain(1))])
                    e = {'merge': (k, sub), '__merge': (k, M([('__merge', sub)])),
                         '/=': (k + '/=', sub), '/+': (k + '/+', sub)}[form]
                else:
                    form = self.r.choice(['set', '/+', 'null'])
                    self.f('override:scalar:' + form)
                    e = {'set': (k, self.scalar()), '/+': (k + '/+', self.scalar()), 'null': (k, N)}[form]
            else:
                self.f('override:new')
                e = (self.r.choice(['n0', 'n1'] + KEYS), self.plain(1))
            if e[0] in used:
                continue
            used.add(e[0])
            out.append(e)
        return out

    # ---- nodes with directives
    def node(self, cur, sec_index, depth, blocking_above):
        r = self.r.random()
        if depth <= 0 or r < 0.25:
            return self.plain(1)
        if r < 0.35:
            return L([self.node(cur, sec_index, depth - 1, blocking_above) for _ in range(self.r.randint(1, 3))])
        entries = []
        has_inc = self.r.random() < 0.45
        has_pat = self.r.random() < 0.4
        own = has_inc or has_pat
        for k in self.r.sample(KEYS, self.r.randint(0, 3)):
            entries.append((k, self.node(cur, sec_index, depth - 1, blocking_above or own)
                            if self.r.random() < 0.4 else self.plain(depth - 1)))
        target = None
        if has_inc:
            self.f('include')
            ref = self.choose_ref(cur, sec_index, blocking_above or own)
            t = self.ref_target(cur, ref)
            target = self.src_at(t[0], t[1]) if t[0] != cur else self.src_cur(t[1])
            ov = self.override_entries(t[0], target)
            names = {k for k, _ in ov}
            entries = [(k, v) for k, v in entries if k not in names] if self.r.random() < 0.5 else entries
            have = {k for k, _ in entries}
            entries += [(k, v) for k, v in ov if k not in have]
            entries.insert(self.r.randint(0, len(entries)), ('__include', S(ref)))
        if has_pat:
            entries.insert(self.r.randint(0, len(entries)),
                           ('__patch', self.patch_directive(cur, sec_index, blocking_above or own,
                                                            M(entries) if target is None else self.overlay(target, entries))))
        return M(entries)

    def overlay(self, target, entries):
        if target is None or target[0] != 'M':
            return M(entries)
        names = {k for k, _ in entries}
        return M([(k, v) for k, v in target[1] if k not in names and not k.startswith('__')] + list(entries))

    def src_cur(self, keys):
        y = self.cur_root()
        for k in keys:
            if y is None:
                return None
            y = self.src_child(None, y, k, 0)
        return y

    def patch_directive(self, cur, sec_index, own_blocking, target):
        def one():
            if self.r.random() < 0.4 and (self.patch_nodes or self.mode == 'cyclic'):
                self.f('patch:reference')
                if self.patch_nodes and self.r.random() < 0.85:
                    did, keys = self.r.choice(self.patch_nodes)
                    if did == cur and (own_blocking or not self.local_refs_allowed) and self.mode == 'acyclic':
                        self.f('patch:literal')
                        return self.patch_map(cur, target)
                    return S(self.fmt_ref(cur, did, keys, self.r.random() < 0.2))
                return S(self.choose_ref(cur, sec_index, own_blocking))
            self.f('patch:literal')
            pm = self.patch_map(cur, target)
            if self.r.random() < 0.15:
                # a directive inside a patch value
                self.f('patch:value-with-include')
                ref = self.choose_ref(cur, sec_index, True)
                pm = M(pm[1] + [(self.r.choice(['n2', 'n3']), M([('__include', S(ref))]))])
            return pm
        if self.r.random() < 0.3:
            self.f('patch:list')
            return L([one() for _ in range(self.r.randint(1, 3))])
        return one()

    # ---- documents
    def document(self, did, with_root_directives=False):
        self.cur_sections = []
        self.local_refs_allowed = not with_root_directives and (self.mode == 'cyclic' or not self.will_have_custom.get(did))
        nsec = self.r.randint(2, 4)
        for i in range(nsec):
            k = 's%d' % i
            r = self.r.random()
            if r < 0.25:
                # a section of patch nodes (maps used through __patch: <reference>)
                subs = []
                for j in range(self.r.randint(1, 2)):
                    pm = self.patch_map(did, self.shape_hint())
                    if self.r.random() < 0.35 and self.patch_nodes:
                        # a patch that references another patch
                        d2, k2 = self.r.choice(self.patch_nodes)
                        if d2 != did or self.local_refs_allowed:
                            self.f('patch:patch-references-patch')
                            pm = M(pm[1] + [('__patch', S(self.fmt_ref(did, d2, k2, False)))])
                    subs.append(('p%d' % j, pm))
                v = M(subs)
                self.cur_sections.append((k, v))
                for kk, _ in subs:
                    self.patch_nodes.append((did, [k, kk]))
                continue
            v = self.node(did, i, 3, False) if r < 0.85 else self.plain(2)
            self.cur_sections.append((k, v))
        entries = list(self.cur_sections)
        if with_root_directives:
            earlier = [d for d in self.docs if not d.endswith('.custom')]
            if earlier and self.r.random() < 0.6:
                self.f('root:include')
                d = self.r.choice(earlier)
                entries.insert(0, ('__include', S(self.fmt_ref(did, d, self.random_path(d, self.docs[d], 1), False))))
            if self.r.random() < 0.6:
                self.f('root:patch')
                entries.append(('__patch', self.patch_directive(did, 0, True, M(entries))))
        self.docs[did] = M(entries)

    def shape_hint(self):
        ids = [d for d in self.docs if not d.endswith('.custom')]
        if ids and self.r.random() < 0.8:
            d = self.r.choice(ids)
            y = self.docs[d]
            ks = self.random_path(d, y, 2)
            for k in ks:
                y = self.src_child(d, y, k) if y is not None else None
            if y is not None:
                return y
        return self.plain(2)

    def build(self):
        r = self.r
        self.patch_nodes = []
        ndocs = r.randint(1, 4)
        base = ['alpha', 'beta', 'gamma', 'delta'][:ndocs]
        schema = r.random() < 0.25
        ids = list(base)
        self.will_have_custom = {d: r.random() < 0.35 for d in ids}
        if schema:
            self.will_have_custom['luna.schema'] = r.random() < 0.4
        for d in ids:
            self.document(d, with_root_directives=(r.random() < 0.2))
        if schema:
            self.f('schema-document')
            self.build_schema()
        for d in list(self.docs):
            if self.will_have_custom.get(d) and not d.endswith('.custom'):
                self.f('custom-document')
                cid = (d[:-7] if d.endswith('.schema') else d) + '.custom'
                pm = self.patch_map(d, self.docs[d])
                extra = [('customization', M([('generator', S('verif'))]))] if r.random() < 0.5 else []
                self.docs[cid] = M(extra + [('patch', pm)])
        if self.mode == 'cyclic':
            self.plant_cycle()
        return self.docs

    def build_schema(self):
        r = self.r
        if r.random() < 0.8:
            self.f('default:menu')
            self.docs['default'] = M([('menu', M([('page_size', S('5')), ('alt', L([S('x')]))])),
                                      ('key_binder', M([('bindings', L([S('d1'), S('d2')])), ('note', S('dflt'))])),
                                      ('punctuator', M([('half', M([('a', S('1'))])), ('full', S('f'))])),
                                      ('recognizer', M([('patterns', M([('email', S('e'))]))]))])
        self.cur_sections = []
        self.local_refs_allowed = not self.will_have_custom.get('luna.schema')
        ent = [('schema', M([('schema_id', S('luna'))]))]
        if r.random() < 0.6:
            ent.append(('menu', M([('page_size', S('9'))] + ([('extra', S('m'))] if r.random() < 0.5 else []))))
        if r.random() < 0.7:
            self.f('preset:key_binder')
            kb = [('import_preset', S('default'))]
            if r.random() < 0.6:
                kb.append(('bindings', L([S('own1')])))
            if r.random() < 0.3:
                kb.append(('note', S('mine')))
            ent.append(('key_binder', M(kb)))
        if r.random() < 0.5:
            self.f('preset:punctuator')
            ent.append(('punctuator', M([('import_preset', S(r.choice(['default', 'default', 'nosuch']))),
                                         ('half', M([('b', S('2'))]))])))
        if r.random() < 0.4:
            self.f('preset:recognizer')
            ent.append(('recognizer', M([('import_preset', S('default')), ('patterns', M([('url', S('u'))]))])))
        self.cur_sections = list(ent)
        ent.append(('s9', self.node('luna.schema', len(ent), 2, False)))
        self.docs['luna.schema'] = M(ent)

    def plant_cycle(self):
        r = self.r
        ids = [d for d in self.docs if not d.endswith('.custom') and d != 'default']
        if not ids:
            return
        kind = r.choice(['self', 'mutual', 'ancestor', 'patch-vs-include', 'none'])
        self.f('cycle:' + kind)
        d = r.choice(ids)
        y = self.docs[d]
        ent = list(y[1])
        if kind == 'self':
            ent.append(('cy', M([('__include', S('/cy'))])))
        elif kind == 'mutual':
            d2 = r.choice(ids)
            ent.append(('cy', M([('__include', S(d2 + ':/cz')), ('a', S('1'))])))
            y2 = self.docs[d2] if d2 != d else M(ent)
            e2 = list(y2[1]) + [('cz', M([('__include', S(d + ':/cy')), ('b', S('2'))]))]
            if d2 == d:
                ent = e2
            else:
                self.docs[d2] = M(e2)
        elif kind == 'ancestor':
            ent.append(('cy', M([('in', M([('__include', S('/cy'))])), ('k', S('v'))])))
        elif kind == 'patch-vs-include':
            ent.append(('cy', M([('__patch', S('/cp?')), ('home', S('excited')),
                                 ('work', M([('__include', S('/cy/home'))]))])))
            ent.append(('cp', M([('home', S('naive'))])))
        self.docs[d] = M(ent)


def gen_set(seed, index, mode):
    rng = random.Random('c14:%d:%d:%s' % (seed, index, mode))
    g = Gen(rng, mode)
    docs = g.build()
    return docs, g.feat


def count_nodes(y):
    if y[0] in ('N', 'S'):
        return 1
    if y[0] == 'L':
        return 1 + sum(count_nodes(x) for x in y[1])
    return 1 + sum(count_nodes(v) for _, v in y[1])


# --------------------------------------------------------------------------- targeted sets
def targeted_sets(seed):
    """Hand-shaped families aimed at the case splits of the proofs; contents
    vary with the seed.  Returns [(name, docs)]."""
    r = random.Random('c14-targeted:%d' % seed)
    w = lambda: S(r.choice(['x', 'y', 'zed', 'w1', 'q']))
    out = []
    base = M([('u', M([('name', w()), ('items', L([w(), w(), w()])), ('sub', M([('k', w())]))])),
              ('v', L([M([('id', S('1'))]), M([('id', S('2'))])]))])
    # 1. two includers of one node, one of them patched / merged over: the other and the source must not move
    for form in ('patch-set', 'patch-append', 'override-merge', 'override-append', 'patch-index'):
        one = [('__include', S('base:/u'))]
        if form == 'patch-set':
            one.append(('__patch', M([('sub/k', w()), ('name', w())])))
        elif form == 'patch-append':
            one.append(('__patch', M([('items/+', L([w(), w()])), ('name/+', w())])))
        elif form == 'override-merge':
            one.append(('sub', M([('k2', w())])))
        elif form == 'override-append':
            one.append(('items', M([('__append', L([w()]))])))
        else:
            one.append(('__patch', M([('items/@%d' % r.randint(0, 2), w())])))
        docs = {'base': base,
                'alpha': M([('one', M(one)), ('two', M([('__include', S('base:/u'))])),
                            ('three', M([('__include', S('base:/u/sub'))]))])}
        out.append(('sibling-includers:' + form, docs))
    # 2. root-level include of a whole document, with and without own keys
    out.append(('root-include:bare', {'base': base, 'alpha': M([('__include', S('base:/'))])}))
    out.append(('root-include:merge', {'base': base, 'alpha': M([('__include', S('base:/')), ('u', M([('name', w())]))])}))
    out.append(('root-include:patch', {'base': base, 'alpha': M([('__include', S('base:/')), ('__patch', M([('u/items/@next', w())]))])}))
    # 3. every list-index form, on a local list and on an included list
    forms = ['@0', '@2', '@5', '@next', '@last', '@before 0', '@before 1', '@before 3', '@before 5',
             '@after 0', '@after 2', '@after 4', '@before last', '@after last']
    for f in forms:
        docs = {'base': base,
                'alpha': M([('loc', M([('l', L([S('a'), S('b'), S('c')])), ('__patch', M([('l/' + f, w())]))])),
                            ('inc', M([('__include', S('base:/u')), ('__patch', M([('items/' + f, w())]))])),
                            ('empty', M([('l', L([])), ('__patch', M([('l/' + f, w())]))]))])}
        out.append(('index-form:' + f, docs))
    # 4. patch order: several patches hit the same key; literal, list and referenced patches
    docs = {'alpha': M([('t', M([('k', S('0')), ('__patch', L([M([('k', S('1'))]), S('/p/a'), M([('k/+', S('3'))])]))])),
                        ('p', M([('a', M([('k', S('2')), ('__patch', S('/p/b'))])), ('b', M([('z', S('9'))]))]))])}
    out.append(('patch-order:list', docs))
    docs = {'alpha': M([('t', M([('__patch', M([('k', S('late'))])), ('k', S('early')), ('__include', S('/src'))])),
                        ('src', M([('k', S('inc')), ('j', S('keep'))]))])}
    out.append(('patch-order:include-before-patch', docs))
    # 5. optional / missing references
    docs = {'alpha': M([('a', M([('__include', S('nosuch:/x?')), ('k', w())])),
                        ('b', M([('__patch', L([S('nosuch:/p?'), S('/missing/here?'), M([('k', w())])]))])),
                        ('c', M([('__include', S('beta:/none/such?')), ('k', w())]))]),
            'beta': M([('x', w())])}
    out.append(('optional:missing', docs))
    docs = {'alpha': M([('a', M([('__include', S('nosuch:/x')), ('k', w())])), ('b', w())])}
    out.append(('error:missing-required', docs))
    # 6. custom patch over includes, .schema with default menu and presets
    docs = {'base': base,
            'alpha': M([('s', M([('__include', S('base:/u'))])), ('t', w())]),
            'alpha.custom': M([('patch', M([('s/items/@next', w()), ('t', w()), ('s/sub/+', M([('z', w())]))]))])}
    out.append(('custom:over-include', docs))
    docs = {'default': M([('menu', M([('page_size', S('5'))])),
                          ('key_binder', M([('bindings', L([S('d1')])), ('k', S('v'))]))]),
            'luna.schema': M([('menu', M([('alt', S('1'))])),
                              ('key_binder', M([('import_preset', S('default')), ('bindings', L([S('mine')]))]))]),
            'luna.custom': M([('patch', M([('menu/page_size', S('7'))]))])}
    out.append(('schema:menu+preset+custom', docs))
    # 7. cycles of every planted kind
    out.append(('cycle:self', {'alpha': M([('cy', M([('__include', S('/cy'))]))])}))
    out.append(('cycle:mutual', {'alpha': M([('cy', M([('__include', S('beta:/cz')), ('a', S('1'))]))]),
                                 'beta': M([('cz', M([('__include', S('alpha:/cy')), ('b', S('2'))]))])}))
    out.append(('cycle:patch-vs-include', {'alpha': M([('test', M([('__patch', S('sometimes?')), ('home', S('excited')),
                                                                    ('work', M([('__include', S('/test/home'))]))])),
                                                        ('sometimes', M([('home', S('naive'))]))])}))
    # 8. a .custom file whose base document does not exist, referenced more than once
    docs = {'alpha': M([('t', M([('__include', S('miss:/q?')), ('k', w())])), ('u', M([('__include', S('miss:/q?'))])),
                        ('v', M([('__patch', S('miss:/q?')), ('k', w())]))]),
            'miss.custom': M([('patch', M([('q', M([('from', S('custom'))]))]))])}
    out.append(('custom-without-base:twice', docs))
    docs = {'alpha': M([('t', M([('__include', S('miss:/?'))])), ('u', M([('__include', S('miss:/?')), ('k', w())]))]),
            'miss.custom': M([('patch', M([('q', w())]))])}
    out.append(('custom-without-base:root', docs))
    # 9. a directive directly inside a patch literal (not inside one of its values)
    base2 = M([('p', M([('x', S('1'))]))])
    out.append(('directive-in-patch-literal:map', {'base': base2,
               'alpha': M([('t', M([('k', S('0')), ('__patch', M([('__include', S('base:/p')), ('a', S('1'))]))]))])}))
    out.append(('directive-in-patch-literal:list', {'base': base2,
               'alpha': M([('t', M([('k', S('0')), ('__patch', L([M([('__include', S('base:/p'))]), M([('b', S('2'))])]))]))])}))
    # 10. a key that denotes another element after its own insertion (`@before last`), in the middle of a path whose
    #     target is converted to a list and then assigned (two writes through one copy-on-write reference)
    base3 = M([('l', L([M([('x', S('k'))]), M([('x', S(''))])]))])
    out.append(('index-shift:append-to-empty', {'base': base3,
               'alpha': M([('t', M([('__include', S('base:/')), ('__patch', M([('l/@before last/x/+', L([w()]))]))])),
                           ('u', M([('__include', S('base:/l'))]))])}))
    out.append(('index-shift:via-custom', {'base': base3,
               'alpha': M([('t', M([('__include', S('base:/'))])), ('u', M([('__include', S('base:/l/@1'))]))]),
               'alpha.custom': M([('patch', M([('t/l/@before last/x/+', L([w(), w()]))]))])}))
    out.append(('index-shift:append-empty-list', {'base': base3,
               'alpha': M([('t', M([('__include', S('base:/')), ('__patch', M([('l/@before last/x/+', L([]))]))])),
                           ('u', M([('__include', S('base:/l'))]))])}))
    # 11. references that address a list element through every index spelling while the element itself carries
    #     directives; the reference stands before or after the list, is an include or a patch reference, local or
    #     cross-file (a .custom document has no automatic patch, so its root does not force the list to be compiled first)
    src = M([('speed', S('fast')), ('gear', S('3'))])
    def lst():
        return L([M([('__include', S('/src')), ('level', S('1'))]),
                  M([('settings', M([('__include', S('/src')), ('level', S('2'))])), ('tag', w())]),
                  M([('__patch', M([('speed', S('slow'))])), ('__include', S('/src')), ('level', S('3'))])])
    spell = {0: ['@0', '@00', '@before 0'],
             1: ['@1', '@01', '@before 1', '@after 0'],
             2: ['@2', '@02', '@last', '@after 1', '@before last', '@before 2']}
    for i, forms in spell.items():
        for f in forms:
            for where in ('before', 'after'):
                ref = [('copy', M([('__include', S('/lst/' + f))])),
                       ('sub', M([('__include', S('lst/' + f + '/settings' if i == 1 else 'lst/' + f)), ('own', w())])),
                       ('pat', M([('k', w()), ('__patch', S(':/lst/' + f))]))]
                body = [('src', src)] + (ref + [('lst', lst())] if where == 'before' else [('lst', lst())] + ref)
                out.append(('index-spelling:%s:%s:local' % (f, where), {'alpha': M(body)}))
        f = forms[-1]
        out.append(('index-spelling:%s:cross-file' % f,
                    {'beta': M([('copy', M([('__include', S('gamma.custom:/lst/' + f))])),
                                ('pat', M([('k', w()), ('__patch', S('gamma.custom:lst/' + f + '?'))]))]),
                     'gamma.custom': M([('src', src), ('lst', lst())])}))
    out.append(('index-spelling:@next:null', {'alpha': M([('src', src), ('copy', M([('__include', S('/lst/@next?')), ('k', w())])),
                                                            ('lst', lst())])}))
    # 12. empty containers inside an included node, written through by patches and by sibling merges,
    #     with other observers of the source (second includer, include of the whole document)
    base4 = M([('u', M([('items', L([])), ('opts', M([])), ('name', w()), ('deep', M([('e', M([])), ('l', L([]))]))])),
               ('v', L([]))])
    writers = {
        'patch-next': [('__patch', M([('items/@next', w())]))],
        'patch-index': [('__patch', M([('items/@0', w()), ('deep/l/@1', w())]))],
        'patch-key': [('__patch', M([('opts/color', w()), ('deep/e/k', w())]))],
        'patch-list': [('__patch', L([M([('items/@next', w())]), M([('opts/a', w())]), M([('items/@next', w())])]))],
        'sibling-merge': [('opts', M([('color', w())])), ('deep', M([('e', M([('k', w())]))]))],
        'sibling-index': [('items', M([('@next', w())]))],
        'append': [('__patch', M([('items/+', L([w()])), ('opts/+', M([('z', w())]))]))],
    }
    for name, extra in writers.items():
        docs = {'base': base4,
                'alpha': M([('one', M([('__include', S('base:/u'))] + extra)),
                            ('two', M([('__include', S('base:/u'))])),
                            ('all', M([('__include', S('base:/'))])),
                            ('three', M([('__include', S('base:/u/deep'))]))])}
        out.append(('empty-container:' + name, docs))
    out.append(('empty-container:root-list', {'base': base4,
               'alpha': M([('one', M([('__include', S('base:/')), ('__patch', M([('v/@next', w()), ('u/items/@next', w())]))])),
                           ('two', M([('__include', S('base:/v'))])), ('three', M([('__include', S('base:/u/items'))]))])}))
    out.append(('empty-container:local', {'alpha': M([('src', M([('items', L([])), ('opts', M([]))])),
               ('one', M([('__include', S('/src')), ('__patch', M([('items/@next', w()), ('opts/k', w())]))])),
               ('two', M([('__include', S('/src'))]))])}))
    # 13. nested merge below an index-shifting key: the second entry of the inner map is written through a reference
    #     whose parent was written before (ownership of the copied container)
    base5 = M([('l', L([M([('x', S('k'))]), M([('m', M([('z', S('0'))]))])]))])
    out.append(('index-shift:nested-merge', {'base': base5,
               'alpha': M([('t', M([('__include', S('base:/')),
                                     ('__patch', M([('l/@before last/+', M([('m', M([('a', w()), ('b', w())]))]))]))])),
                           ('u', M([('__include', S('base:/l'))]))])}))
    out.append(('index-shift:nested-merge-override', {'base': base5,
               'alpha': M([('t', M([('__include', S('base:/')),
                                     ('l', M([('@before last', M([('m', M([('a', w()), ('b', w())]))]))]))])),
                           ('u', M([('__include', S('base:/l/@last'))]))])}))
    # 14. many dependencies at ONE node (the per-path list of InsertByPriority grows beyond the sizes at which library
    #     sorts switch algorithm: 16/17, 32/33, 64): long patch lists whose entries are order-sensitive (appends to one
    #     list, repeated writes to one key), mixed with an include and with pending children that carry directives
    shared = M([('v', S('s')), ('w', L([S('s0')]))])
    for npatch in (15, 16, 17, 18, 24, 33, 40, 65):
        for extra in ('bare', 'include', 'children'):
            plist = []
            for i in range(npatch):
                form = r.choice(['next', 'next', 'set', 'append-str'])
                if form == 'next':
                    plist.append(M([('log/@next', S('n%d' % i))]))
                elif form == 'set':
                    plist.append(M([('last', S('v%d' % i))]))
                else:
                    plist.append(M([('str/+', S('%d,' % i))]))
            body = [('log', L([S('start')])), ('last', S('none')), ('str', S(''))]
            if extra == 'include':
                body = [('__include', S('/shared'))] + body
            if extra == 'children':
                body += [('c%d' % j, M([('__include', S('/shared')), ('own', S('%d' % j))])) for j in range(r.choice([1, 3, 17]))]
            body.append(('__patch', L(plist)))
            out.append(('many-deps:%d:%s' % (npatch, extra), {'alpha': M([('shared', shared), ('node', M(body))])}))
    #     the same through references: a patch list of 20 references to literal patch maps elsewhere in the document
    pm = [('p%02d' % i, M([('log/@next', S('r%d' % i)), ('last', S('r%d' % i))])) for i in range(20)]
    out.append(('many-deps:20:references', {'alpha': M([('pats', M(pm)),
               ('node', M([('log', L([])), ('last', S('none')),
                           ('__patch', L([S('/pats/p%02d' % i) for i in range(20)]))]))])}))
    # 15. the automatic `<name>.custom` patch next to every kind of root-level dependency: the custom patch is skipped only
    #     when the root already carries an explicit __patch (AutoPatchConfigPlugin); a root __include, pending children
    #     with directives, both, or neither must leave it applied - after the includes, as the last patch
    cust = M([('patch', M([('u/name', S('custom')), ('u/items/@next', w()), ('extra', w()), ('own/k', S('custom'))]))])
    roots = {
        'plain': [('own', M([('k', S('base'))]))],
        'root-include': [('__include', S('base:/')), ('own', M([('k', S('base'))]))],
        'root-include-optional-missing': [('__include', S('nosuch:/?')), ('own', M([('k', S('base'))]))],
        'child-include': [('own', M([('__include', S('base:/u/sub')), ('k', S('base'))]))],
        'root-include+child-include': [('__include', S('base:/')), ('own', M([('__include', S('base:/u/sub')), ('k', S('base'))]))],
        'root-patch': [('own', M([('k', S('base'))])), ('__patch', M([('own/k', S('explicit'))]))],
        'root-include+root-patch': [('__include', S('base:/')), ('own', M([('k', S('base'))])), ('__patch', M([('u/name', S('explicit'))]))],
        'child-patch': [('own', M([('k', S('base')), ('__patch', M([('k', S('child'))]))]))],
    }
    for name, body in roots.items():
        out.append(('custom-vs-root:' + name, {'base': base, 'alpha': M(body), 'alpha.custom': cust}))
        out.append(('custom-vs-root:' + name + ':schema', {'base': base, 'default': M([('menu', M([('page_size', S('5'))]))]),
                                                           'alpha.schema': M(body), 'alpha.custom': cust}))
    # 16. (round 4) names that are string prefixes of one another without a path-segment boundary between them - sibling keys
    #     punct / punct_ext, a / ab, list elements @1 / @10..@12: the longer-named node (or something below it) references
    #     the shorter-named one, which carries a directive of its own; nothing here is cyclic
    src2 = M([('k', w()), ('j', S('keep'))])
    for short, long_ in (('punct', 'punct_ext'), ('a', 'ab'), ('key', 'key2')):
        for deep in (False, True):
            ref = M([('__include', S('/' + short)), ('own', w())])
            out.append(('prefix-names:%s:%s' % (long_, 'deep' if deep else 'flat'),
                        {'alpha': M([(short, M([('__include', S('/src')), ('x', w())])),
                                     (long_, M([('sub', ref)]) if deep else ref),
                                     ('src', src2), ('tail', M([('t', S('0'))]))]),
                         'alpha.custom': M([('patch', M([('tail/t', S('9'))]))])}))
            # the same without a .custom file: the root carries no directive, every reference is clear for the specification
            out.append(('prefix-names:%s:%s:nocustom' % (long_, 'deep' if deep else 'flat'),
                        {'alpha': M([(short, M([('__include', S('/src')), ('x', w())])),
                                     (long_, M([('sub', ref)]) if deep else ref),
                                     ('src', src2), ('tail', M([('t', S('0'))]))])}))
    elems = [M([('i', S(str(i)))]) for i in range(13)]
    elems[1] = M([('__include', S('/src')), ('i', S('1'))])
    elems[10] = M([('__include', S('/list/@1')), ('own', w())])
    elems[12] = M([('sub', M([('__include', S('/list/@1')), ('own', w())]))])
    out.append(('prefix-names:list-@1-@10', {'alpha': M([('src', src2), ('list', L(elems)), ('tail', M([('t', S('0'))]))]),
                                              'alpha.custom': M([('patch', M([('tail/t', S('9'))]))])}))
    out.append(('prefix-names:list-@1-@10:nocustom', {'alpha': M([('src', src2), ('list', L(elems)), ('tail', M([('t', S('0'))]))])}))
    # 17. (round 4) one document includes two nodes of another document whose root is patched by its .custom file (and which
    #     refers to one of those nodes itself): whatever the order of the two includes, each is a copy of the node as the
    #     other document compiles it
    lib = M([('shape', M([('colour', S('red')), ('size', w())])), ('alias', M([('__include', S('/shape'))])),
             ('misc', M([('m', w())]))])
    libc = M([('patch', M([('shape/colour', S('blue'))]))])
    for order in ('misc-first', 'shape-first'):
        inc = [('first', M([('__include', S('lib:/misc'))])), ('second', M([('__include', S('lib:/shape'))]))]
        out.append(('xdoc-include:' + order, {'lib': lib, 'lib.custom': libc, 'app': M(inc if order == 'misc-first' else inc[::-1])}))
    out.append(('xdoc-include:no-inner-reference', {'lib': M([('shape', M([('colour', S('red'))])), ('misc', M([('m', w())]))]),
                                                    'lib.custom': libc,
                                                    'app': M([('first', M([('__include', S('lib:/misc'))])),
                                                              ('second', M([('__include', S('lib:/shape'))]))])}))
    # 18. (round 5) the same patch reference more than once in one patch list, in every spelling of the reference, with an
    #     entry in between that sets a key the repeated patch sets too, and appending entries inside the repeated patch
    presets = M([('patches', M([('enable', M([('mode', S('on')), ('log/@next', S('enable'))])),
                                ('disable', M([('mode', S('off')), ('log/@next', S('disable'))]))]))])
    for name, plist in (('cross-file', [S('presets:/patches/enable'), S('presets:/patches/disable'), S('presets:/patches/enable')]),
                        ('spellings', [S('presets:/patches/enable'), S('presets.yaml:/patches/disable'), S('presets:/patches/enable?'),
                                       S('presets.yaml:/patches/enable')]),
                        ('with-literal', [S('presets:/patches/enable'), M([('mode', S('literal'))]), S('presets:/patches/enable')])):
        out.append(('repeated-patch-reference:' + name,
                    {'presets': presets, 'alpha': M([('settings', M([('mode', S('initial')), ('log', L([S('start')])), ('__patch', L(plist))]))])}))
    out.append(('repeated-patch-reference:local',
                {'alpha': M([('local', M([('bump', M([('counter/+', S('x'))])), ('clear', M([('counter', S(''))]))])),
                             ('node', M([('counter', S('0')),
                                         ('__patch', L([S('/local/bump'), S('/local/bump?'), S('/local/clear'), S('/local/bump')]))]))])}))
    # 19. (round 5) keys with a slash inside maps that are merged as trees: siblings of an include, values of key/+ and __merge
    commonp = M([('patches', M([('common', M([('menu/page_size', S('5')), ('style/horizontal', S('true'))]))])),
                 ('menu', M([('page_size', S('9')), ('layout', S('grid'))]))])
    out.append(('slash-keys:include-sibling',
                {'base': commonp, 'alpha': M([('my_patch', M([('__include', S('base:/patches/common')), ('menu/alternative_select_keys', S('XYZ'))])),
                                             ('plain', M([('__include', S('base:/menu')), ('deep', M([('a/b', w())]))]))])}))
    out.append(('slash-keys:applied',
                {'base': commonp, 'alpha': M([('my_patch', M([('__include', S('base:/patches/common')), ('menu/alternative_select_keys', S('XYZ'))])),
                                             ('menu', M([('page_size', S('9')), ('layout', S('grid'))])),
                                             ('__patch', S('/my_patch'))])}))
    out.append(('slash-keys:append-merge',
                {'base': commonp, 'alpha': M([('t', M([('__include', S('base:/patches')), ('common/+', M([('style/vertical', S('false'))]))])),
                                             ('u', M([('__include', S('base:/patches')), ('common', M([('__merge', M([('a/b/c', w())]))]))]))])}))
    return out


def bare_xdoc_includes(docs):
    """[(document, key, other document, [path keys])] for top-level entries of the form key: {__include: other:/a/b} (nothing else in
    the map, no .custom file for the including document)"""
    res = []
    for d, y in docs.items():
        if d.endswith('.custom') or (d + '.custom') in docs or y[0] != 'M':
            continue
        for k, v in y[1]:
            if v[0] == 'M' and len(v[1]) == 1 and v[1][0][0] == '__include' and v[1][0][1][0] == 'S':
                ref = v[1][0][1][1]
                if ':/' in ref and not ref.endswith('?'):
                    other, path = ref.split(':/', 1)
                    if other in docs and other != d and all(seg and not seg.startswith('@') for seg in path.split('/')):
                        res.append((d, k, other, path.split('/')))
    return res


def has_mid_path_insert(docs):
    """a map key whose path has an inserting index form (@before, @after) that is read again after it was written:
    before the last component of the path, or as the last component when a non-empty map is merged into it (`/+`, or
    a bare index key among merged sibling keys).  Reading and writing such a component denote different elements;
    only 'sources untouched' is judged on such sets."""
    def walk(n):
        if n[0] == 'L':
            return any(walk(x) for x in n[1])
        if n[0] == 'M':
            for k, v in n[1]:
                kk = k[:-2] if k.endswith('/+') or k.endswith('/=') else k
                cs = [c for c in kk.split('/') if c]
                ins = [i for i, c in enumerate(cs) if c.startswith('@before') or c.startswith('@after')]
                if ins and (ins[0] < len(cs) - 1 or
                            (v[0] == 'M' and v[1] and (k.endswith('/+') or len(cs) == 1))):
                    return True
                if walk(v):
                    return True
        return False
    return any(walk(y) for y in docs.values())


def has_directive_directly_in_patch_literal(docs):
    def lit(v):
        return v[0] == 'M' and any(k in ('__include', '__patch') for k, _ in v[1])

    def walk(n):
        if n[0] == 'L':
            return any(walk(x) for x in n[1])
        if n[0] == 'M':
            for k, v in n[1]:
                if k == '__patch' and (lit(v) or (v[0] == 'L' and any(lit(e) for e in v[1]))):
                    return True
                if walk(v):
                    return True
        return False
    return any(walk(y) for y in docs.values())


def to_json(docs):
    def j(y):
        if y[0] == 'N':
            return None
        if y[0] == 'S':
            return y[1]
        if y[0] == 'L':
            return [j(x) for x in y[1]]
        return {'__map__': [[k, j(v)] for k, v in y[1]]}
    return {d: j(y) for d, y in docs.items()}


def from_json(obj):
    def u(v):
        if v is None:
            return N
        if isinstance(v, str):
            return S(v)
        if isinstance(v, list):
            return L([u(x) for x in v])
        return M([(k, u(x)) for k, x in v['__map__']])
    return {d: u(v) for d, v in obj.items()}
