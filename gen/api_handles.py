#!/usr/bin/env python3
"""Translator for C01 (handle ledger): get_*/free_* pairs of the API -> coq/Gen/ApiHandles.v.

For each pair (RimeGetX, RimeFreeX) found in the clang AST of src/rime_api.cc:
  * free fields : the lvalue paths (rooted at the struct parameter) passed to delete[] in RimeFreeX
  * get fields  : pointer-typed lvalue paths assigned in RimeGetX, and whether the right-hand side is a
                  `new` expression (FromNew) or something else that is not a null constant (FromOther);
                  assignments made through a local alias (`T* d = &s->a[i]`, `T& x(s->a[i])`) or inside a
                  helper called with such an alias (rime_candidate_copy) are resolved one level deep
  * clears      : the struct is cleared (memset over it – RIME_STRUCT_CLEAR – or a null assignment to every
                  top-level pointer field involved) before the first `new` in get / after the last delete in free
A free function without a matching get, or a statement shape that is not understood, yields a pair that
fails `shape_ok` (nothing is guessed).
"""
import os
import re
import sys

HERE = os.path.dirname(os.path.abspath(__file__))
sys.path.insert(0, os.path.join(os.path.dirname(HERE), "lib"))
sys.path.insert(0, HERE)
import vlib  # noqa: E402
from copy_sites import clang_ast, walk, strip, callee_name, int_lit  # noqa: E402


def path_of(e, root, alias):
    """textual path of an lvalue expression rooted at parameter `root` (or an alias), else None"""
    e = strip(e)
    k = e.get("kind")
    if k == "DeclRefExpr":
        n = e.get("referencedDecl", {}).get("name")
        if n in alias:
            return alias[n]
        if n == root:
            return ""
        return None
    if k == "MemberExpr":
        base = path_of(e["inner"][0], root, alias)
        if base is None:
            return None
        return (base + "." if base else "") + e.get("name", "?")
    if k == "ArraySubscriptExpr":
        base = path_of(e["inner"][0], root, alias)
        return None if base is None else base + "[]"
    if k == "UnaryOperator" and e.get("opcode") in ("*", "&"):
        return path_of(e["inner"][0], root, alias)
    return None


def is_ptr_type(e):
    t = e.get("type", {}).get("qualType", "")
    return t.endswith("*")


def order_walk(n, out):
    """statements/expressions in source order (pre-order)"""
    out.append(n)
    for c in n.get("inner", []) or []:
        order_walk(c, out)


def analyse(fn, fns, root=None, prefix_alias=None):
    ps = [c for c in fn.get("inner", []) if c.get("kind") == "ParmVarDecl"]
    body = [x for x in fn["inner"] if x.get("kind") == "CompoundStmt"][0]
    if root is None:
        cand = [p for p in ps if p["type"]["qualType"].endswith("*") and "Session" not in p["type"]["qualType"] and "char" not in p["type"]["qualType"]]
        if len(cand) != 1:
            return None
        root = cand[0]["name"]
    alias = dict(prefix_alias or {})
    seq = []
    order_walk(body, seq)
    events = []   # ("new", path) ("other", path) ("null", path) ("delete", path) ("memset",) ("unknown", text)
    for n in seq:
        k = n.get("kind")
        if k == "VarDecl" and n.get("inner"):
            init = strip(n["inner"][-1])
            p = path_of(init, root, alias)
            t = n.get("type", {}).get("qualType", "")
            if p is not None and (t.endswith("*") or t.endswith("&")) and (init.get("kind") != "DeclRefExpr"):
                alias[n["name"]] = p
        elif k == "BinaryOperator" and n.get("opcode") == "=":
            lhs, rhs = n["inner"]
            p = path_of(lhs, root, alias)
            if p is not None and p != "" and is_ptr_type(strip(lhs)):
                r = strip(rhs)
                if r.get("kind") == "CXXNewExpr":
                    events.append(("new", p))
                elif int_lit(r) == 0 or r.get("kind") in ("CXXNullPtrLiteralExpr", "GNUNullExpr"):
                    events.append(("null", p))
                else:
                    events.append(("other", p))
        elif k == "CXXDeleteExpr":
            p = path_of(n["inner"][0], root, alias)
            events.append(("delete", p) if p is not None else ("unknown", "delete of something not rooted at the struct"))
        elif k == "CallExpr":
            c = callee_name(n)
            args = n["inner"][1:]
            if c == "memset" and args and any(x.get("kind") == "DeclRefExpr" and x.get("referencedDecl", {}).get("name") == root
                                              for x in walk(args[0])):
                events.append(("memset",))
            elif c in fns and c not in ("memset", "strcpy", "strncpy", "strlen"):
                # helper called with an alias of a sub-object: inline its events under that path
                h = fns[c]
                hps = [x for x in h.get("inner", []) if x.get("kind") == "ParmVarDecl"]
                for a, hp in zip(args, hps):
                    p = path_of(a, root, alias)
                    if p is not None and p != "" and hp["type"]["qualType"].endswith("*"):
                        sub = analyse(h, {}, root=hp["name"], prefix_alias={hp["name"]: p})
                        if sub:
                            events += sub[1]
    return root, events


def shape(get_fn, free_fn, fns):
    g = analyse(get_fn, fns)
    f = analyse(free_fn, fns)
    if g is None or f is None:
        return None
    ge, fe = g[1], f[1]
    get_fields, free_fields = [], []
    for e in ge:
        if e[0] == "new" and (e[1], "FromNew") not in get_fields:
            get_fields.append((e[1], "FromNew"))
        if e[0] == "other" and (e[1], "FromOther") not in get_fields:
            get_fields.append((e[1], "FromOther"))
    unknown = [e for e in ge + fe if e[0] == "unknown"]
    for e in fe:
        if e[0] == "delete":
            free_fields.append(e[1])
    top = lambda p: "[]" not in p  # noqa: E731
    # get clears first: a memset before the first new, or null assignment to every top-level pointer field it news
    first_new = next((i for i, e in enumerate(ge) if e[0] == "new"), len(ge))
    pre = ge[:first_new]
    get_clears = any(e[0] == "memset" for e in pre) or all(("null", p) in pre for p, k in get_fields if top(p))
    last_del = max([i for i, e in enumerate(fe) if e[0] == "delete"], default=-1)
    post = fe[last_del + 1:]
    free_clears = any(e[0] == "memset" for e in post) or all(("null", p) in post for p in free_fields if top(p))
    if unknown:
        free_fields.append("<unrecognised>")
    for i, p in enumerate(free_fields):
        # an array must be deleted after the things its elements own
        if any(q.startswith(p + "[]") for q in free_fields[i + 1:]):
            free_fields.append("<parent-before-child>")
            break
    return dict(get_fields=get_fields, free_fields=free_fields, get_clears=bool(get_clears and get_fields), free_clears=bool(free_clears and free_fields))


def generate():
    path = os.path.join(vlib.REPO, "src", "rime_api.cc")
    objs = clang_ast(path, "Rime") + clang_ast(path, "rime_candidate_copy")
    fns = {}
    for o in objs:
        if o.get("kind") == "FunctionDecl" and any(c.get("kind") == "CompoundStmt" for c in o.get("inner", []) or []):
            fns[o["name"]] = o
    rows = []
    frees = sorted(n for n in fns if re.fullmatch(r"RimeFree[A-Z]\w*", n))
    for fr in frees:
        ge = "RimeGet" + fr[len("RimeFree"):]
        if ge not in fns:
            rows.append((ge, fr, dict(get_fields=[], free_fields=["<no matching get>"], get_clears=False, free_clears=False)))
            continue
        sh = shape(fns[ge], fns[fr], fns)
        if sh is None:
            sh = dict(get_fields=[], free_fields=["<unrecognised>"], get_clears=False, free_clears=False)
        rows.append((ge, fr, sh))
    b = lambda x: "true" if x else "false"  # noqa: E731
    lines = ["(* GENERATED by /verif/gen/api_handles.py from %s/src/rime_api.cc (clang AST) - do not edit *)" % vlib.REPO,
             "From Coq Require Import List String.", "From RimeV Require Import Api.Ledger.",
             "Import ListNotations.", "Local Open Scope string_scope.", "",
             "Definition api_pairs : list pair_shape := ["]
    items = []
    for ge, fr, sh in rows:
        items.append('  {| ps_get := "%s"; ps_free := "%s";\n     ps_get_fields := [%s];\n     ps_free_fields := [%s];\n'
                     '     ps_get_clears_first := %s; ps_free_clears := %s |}' %
                     (ge, fr, "; ".join('("%s", %s)' % (p, k) for p, k in sh["get_fields"]),
                      "; ".join('"%s"' % p for p in sh["free_fields"]), b(sh["get_clears"]), b(sh["free_clears"])))
    lines.append(";\n".join(items))
    lines.append("].")
    vlib.write_if_changed(os.path.join(vlib.COQ, "Gen", "ApiHandles.v"), "\n".join(lines) + "\n")
    return rows


if __name__ == "__main__":
    for ge, fr, sh in generate():
        print(ge, fr)
        for k, v in sh.items():
            print("   ", k, v)
