#!/usr/bin/env python3
"""Translator for C16: which API functions take a session id, and how do they get at the session?

From the clang AST of src/rime_api.cc (which includes rime_api_impl.h) every
function definition with a `RimeSessionId` parameter is classified:

  Guarded      the only use of the id is one `Service::instance().GetSession(id)`
               whose result is bound to a local; nothing before it touches the
               service; the next statement is `if (!session) return ...;`
               (no else); the body uses no other Service session function
  Delegates f  the body only forwards the id to function f (also in the list)
  FindLike     `return Bool(id && Service::instance().GetSession(id))`
  DestroyLike  `return Bool(Service::instance().DestroySession(id))`
  Unrecognised anything else (never guessed)

-> coq/Gen/SessionApi.v.  The model's `Call i o` (Svc/SvcModel.v) is the
behaviour of a Guarded function; Properties_C16.v sweeps the generated list.
"""
import os
import re
import sys

HERE = os.path.dirname(os.path.abspath(__file__))
sys.path.insert(0, os.path.join(os.path.dirname(HERE), "lib"))
sys.path.insert(0, HERE)
import vlib  # noqa: E402
from copy_sites import clang_ast, walk, refs, strip, callee_name  # noqa: E402

SERVICE_SESSION_FNS = {"GetSession", "CreateSession", "DestroySession", "CleanupStaleSessions", "CleanupAllSessions"}


def member_calls(n):
    """names of member functions called anywhere under n"""
    out = []
    for x in walk(n):
        if x.get("kind") == "CXXMemberCallExpr":
            f = strip(x["inner"][0])
            if f.get("kind") == "MemberExpr":
                out.append((f.get("name"), x))
    return out


def count_refs(n, name):
    return sum(1 for x in walk(n) if x.get("kind") == "DeclRefExpr" and x.get("referencedDecl", {}).get("name") == name)


def classify(f, fn_names):
    ps = [c for c in f.get("inner", []) if c.get("kind") == "ParmVarDecl"]
    sid = [p for p in ps if p["type"]["qualType"] == "RimeSessionId"]
    if len(sid) != 1:
        return "Unrecognised", "not exactly one RimeSessionId parameter"
    P = sid[0]["name"]
    body = [x for x in f["inner"] if x.get("kind") == "CompoundStmt"][0]
    stmts = body.get("inner", []) or []
    mcs = member_calls(body)
    svc = [(n, x) for n, x in mcs if n in SERVICE_SESSION_FNS]
    # --- Find / Destroy one-liners
    if len(stmts) == 1 and stmts[0].get("kind") == "ReturnStmt":
        names = [n for n, _ in svc]
        if names == ["DestroySession"] and count_refs(body, P) == 1:
            return "DestroyLike", ""
        if names == ["GetSession"] and count_refs(body, P) == 2:
            ops = [x.get("opcode") for x in walk(body) if x.get("kind") == "BinaryOperator"]
            if ops == ["&&"]:
                return "FindLike", ""
        # delegation: a single call forwarding the id
        calls = [x for x in walk(stmts[0]) if x.get("kind") == "CallExpr"]
        if not svc and count_refs(body, P) == 1 and calls:
            c = callee_name(calls[0])
            if c in fn_names and any(refs(a, P) for a in calls[0]["inner"][1:]):
                return "Delegates \"%s\"" % c, ""
        return "Unrecognised", "single return statement of unknown shape"
    # --- guarded shape
    if [n for n, _ in svc] != ["GetSession"]:
        return "Unrecognised", "service session functions used: %s" % [n for n, _ in svc]
    if count_refs(body, P) != 1:
        return "Unrecognised", "session id used %d times" % count_refs(body, P)
    gi = None
    for i, s in enumerate(stmts):
        if any(n == "GetSession" for n, _ in member_calls(s)):
            gi = i
            break
    s = stmts[gi]
    if s.get("kind") != "DeclStmt":
        return "Unrecognised", "GetSession result is not bound to a local"
    var = [v for v in s.get("inner", []) if v.get("kind") == "VarDecl"]
    if len(var) != 1:
        return "Unrecognised", "declaration shape"
    V = var[0]["name"]
    for pre in stmts[:gi]:
        if any(n in ("instance",) for n in [callee_name(x) for x in walk(pre) if x.get("kind") == "CallExpr"]):
            return "Unrecognised", "service touched before the guard"
        if refs(pre, P):
            return "Unrecognised", "id used before the guard"
    if gi + 1 >= len(stmts):
        return "Unrecognised", "no statement after GetSession"
    g = stmts[gi + 1]
    if g.get("kind") != "IfStmt" or len(g["inner"]) != 2:
        return "Unrecognised", "statement after GetSession is not an else-less if"
    cond, then = g["inner"]
    nots = [x for x in walk(cond) if x.get("kind") == "UnaryOperator" and x.get("opcode") == "!"]
    if not (len(nots) == 1 and refs(cond, V) and strip(cond) is not None and count_refs(cond, V) == 1
            and not any(x.get("kind") == "BinaryOperator" for x in walk(cond))):
        return "Unrecognised", "guard condition is not `!%s`" % V
    t = then
    if t.get("kind") == "CompoundStmt" and len(t.get("inner", [])) == 1:
        t = t["inner"][0]
    if t.get("kind") != "ReturnStmt":
        return "Unrecognised", "guard does not return"
    return "Guarded", ""


def lexical_names():
    names = []
    for rel in ("src/rime_api.cc", "src/rime_api_impl.h"):
        src = open(os.path.join(vlib.REPO, rel)).read()
        src = re.sub(r"//[^\n]*", "", src)
        for m in re.finditer(r"(\w+)\s*\(\s*RimeSessionId\s+\w+[^()]*\)\s*\{", src):
            names.append(m.group(1))
    return sorted(set(names))


def generate():
    path = os.path.join(vlib.REPO, "src", "rime_api.cc")
    objs = clang_ast(path, "Rime") + clang_ast(path, "do_with_candidate")
    fns = {}
    for o in objs:
        if o.get("kind") == "FunctionDecl" and any(c.get("kind") == "CompoundStmt" for c in o.get("inner", []) or []):
            ps = [c for c in o.get("inner", []) if c.get("kind") == "ParmVarDecl"]
            if any(p["type"]["qualType"] == "RimeSessionId" for p in ps):
                fns[o["name"]] = o
    for n in lexical_names():
        if n not in fns:
            for o in clang_ast(path, n):
                if o.get("kind") == "FunctionDecl" and o.get("name") == n and any(c.get("kind") == "CompoundStmt" for c in o.get("inner", []) or []):
                    fns[n] = o
            if n not in fns:
                fns[n] = None
    rows = []
    for n in sorted(fns):
        if fns[n] is None:
            rows.append((n, "Unrecognised", "definition not found in the AST"))
        else:
            k, why = classify(fns[n], set(fns))
            rows.append((n, k, why))
    lines = ["(* GENERATED by /verif/gen/session_api.py from %s/src/rime_api.cc (clang AST) - do not edit *)" % vlib.REPO,
             "From Coq Require Import List String.", "From RimeV Require Import Svc.ApiShape.",
             "Import ListNotations.", "Local Open Scope string_scope.", "",
             "Definition session_fns : list (string * fkind) := ["]
    lines.append(";\n".join('  ("%s", %s)' % (n, k) for n, k, _ in rows))
    lines.append("].")
    vlib.write_if_changed(os.path.join(vlib.COQ, "Gen", "SessionApi.v"), "\n".join(lines) + "\n")
    return rows


if __name__ == "__main__":
    for n, k, why in generate():
        print("%-40s %-28s %s" % (n, k, why))
