"""C18, round 3: file-based save/load histories of one rime::Config (harness line type F, see harness/c18/c18.cc).
The property clause: "config trees survive save and load" - whatever route changed the tree (setters, a document loaded
from a stream, in-place edits of containers handed out by getters), a successful SaveToFile/Save followed by loading
that file gives the tree the config held at the time of the save.  Implementation-only oracle (the Coq model covers the
codec and the path algebra, not the file bookkeeping of ConfigData: file_path_ / modified_)."""


def hx(s):
    return s.encode("utf-8").hex()


WORDS = ["a", "b", "key", "name", "list", "x1", "zed", "menu", "page_size", "v"]
VALS = ["1", "two", "3.5", "true", "hello world", "x", "yes", "0", "abc"]


def doc(rng, depth=0):
    """a small YAML document in flow style (no nulls, no empty containers, plain-safe scalars): reload == tree"""
    r = rng.random()
    if depth >= 2 or r < 0.3:
        return '"%s"' % rng.choice(VALS)
    if r < 0.6:
        return "[" + ", ".join(doc(rng, depth + 1) for _ in range(rng.randint(1, 3))) + "]"
    ks = rng.sample(WORDS, rng.randint(1, 3))
    return "{" + ", ".join('"%s": %s' % (k, doc(rng, depth + 1)) for k in ks) + "}"


def root_doc(rng):
    ks = rng.sample(WORDS, rng.randint(1, 4))
    return "{" + ", ".join('"%s": %s' % (k, doc(rng, 1)) for k in ks) + "}"


def gen_file_history(rng):
    names = ["f1.yaml", "f2.yaml"]
    ops = []
    # start: either load a document from a stream, or build with setters; then save
    for _ in range(rng.randint(3, 14)):
        r = rng.random()
        if r < 0.2:
            ops.append("ld:" + hx(root_doc(rng)))
        elif r < 0.4:
            ops.append("ss:%s:%s" % (hx("/".join(rng.sample(WORDS, rng.randint(1, 2)))), hx(rng.choice(VALS))))
        elif r < 0.55:
            ops.append("ed:%s:%s:%s" % (hx(rng.choice(["", rng.choice(WORDS), "/".join(rng.sample(WORDS, 2))])), hx(rng.choice(WORDS)),
                                        hx(rng.choice(VALS))))
        elif r < 0.8:
            n = rng.choice(names)
            ops += ["sf:" + n, "rf:" + n]
        elif r < 0.88:
            ops += ["sv", "rf:" + rng.choice(names)]
        elif r < 0.95:
            ops.append("lf:" + rng.choice(names))
        else:
            ops.append("rf:" + rng.choice(names))
    n = rng.choice(names)
    ops += ["sf:" + n, "rf:" + n]
    return ops


def judge(ops, out):
    """first failure as (op index, clause, detail) or None.  `out`: the harness's output line."""
    res = out.split(" ")
    if len(res) != len(ops):
        return (len(res), "malformed-output", out[:200])
    saved = {}      # file name -> tree it must hold
    cur_file = None  # file the config is associated with (SaveToFile / LoadFromFile record the path; Save() writes there)
    for i, (op, r) in enumerate(zip(ops, res)):
        ret, _, tree = r.partition("|")
        f = op.split(":")
        k = f[0]
        if k == "sf":
            if ret == "B1":
                saved[f[1]] = tree
                cur_file = f[1]
        elif k == "lf":
            if ret == "B1":
                cur_file = f[1]
                if f[1] in saved and tree != saved[f[1]]:
                    return (i, "load-differs-from-saved", "LoadFromFile(%s) gives %s, saved was %s" % (f[1], tree[:300], saved[f[1]][:300]))
        elif k == "sv":
            if ret == "B1" and cur_file is not None:
                saved[cur_file] = tree
        elif k == "rf":
            if f[1] in saved:
                if ret != "R" + saved[f[1]]:
                    return (i, "file-differs-from-saved-tree", "%s holds %s after a successful save of %s" % (f[1], ret[:300], saved[f[1]][:300]))
    return None
