"""Round-3 history patterns for the session checks (C02, C03, C05, C01): shapes that independently seeded
changes needed in order to manifest and that the general generators of englib.py reach too rarely.
Same op-line format as englib (docs/ENG.md section 2).  Every function takes a random.Random and returns a
list of op lines; none of them depends on anything but that PRNG state."""
import englib
from englib import XK, key, LETTERS

CTRL, SHIFT = englib.CTRL, englib.SHIFT
HOTKEYS = [(XK["F4"], 0), (XK["F4"], 0), (XK["grave"], CTRL), (XK["grave"], CTRL | SHIFT)]


def gen_switcher_history(rng, schema_letters=LETTERS):
    """The schema switcher (stock workspaces only; the synthetic workspace has no hot key): opened on an idle
    session or in the middle of a composition, read while open (get_context / get_status views of the SAME
    state must agree), API-level clear/commit/option/caret/select calls while its menu shows, keys inside
    the menu, closing by Escape or by a selection, and composing again afterwards."""
    ops = []
    if rng.random() < 0.6:
        for _ in range(rng.choice([1, 2, 3, 5])):
            ops.append(key(ord(rng.choice(schema_letters))))
        if rng.random() < 0.3:
            ops.append(key(XK["Left"]))
    if rng.random() < 0.3:
        ops.append("opt %s %d" % (rng.choice(["soft_cursor", "_auto_commit", "_fold_options", "ascii_mode"]), rng.randrange(2)))
    for _ in range(rng.choice([1, 1, 2])):
        ops.append(key(*rng.choice(HOTKEYS)))
    ops.append(rng.choice(["getctx", "getstatus", "getinput"]))
    for _ in range(rng.randrange(0, 5)):
        r = rng.random()
        if r < 0.35:
            ops.append(key(rng.choice([XK["Down"], XK["Up"], XK["Next"], XK["Prior"], XK["Home"], XK["End"]])))
        elif r < 0.55:
            ops.append(rng.choice(["clear", "commit", "getcommit", "caret 0", "caret 3", "page 0", "page 1",
                                   "hl 1", "hlp 1", "hl 7", "input 6e69", "input -"]))
        elif r < 0.75:
            ops.append("opt %s %d" % (rng.choice(["soft_cursor", "_auto_commit", "ascii_mode", "full_shape", "simplification",
                                                 "_fold_options", "zz"]), rng.randrange(2)))
        elif r < 0.9:
            ops.append(key(ord(rng.choice(schema_letters + "123"))))
        else:
            ops.append(key(*rng.choice(HOTKEYS)))
        if rng.random() < 0.4:
            ops.append(rng.choice(["getctx", "getstatus"]))
    end = rng.random()
    if end < 0.3:
        ops.append(key(XK["Escape"]))
    elif end < 0.55:
        ops.append(rng.choice(["sel 0", "selp 0", "sel 1", "selp 1", key(ord("1")), key(ord("2")), key(XK["space"]), key(XK["Return"])]))
    elif end < 0.7:
        ops.append(rng.choice(["clear", "commit"]))
    ops.append("getctx")
    for _ in range(rng.choice([0, 2, 4])):
        ops.append(key(ord(rng.choice(schema_letters))))
    if rng.random() < 0.5:
        ops.append(rng.choice([key(XK["space"]), "commit", "sel 0", key(XK["Escape"])]))
    ops.append("getctx")
    return ops


def gen_no_autocommit_history(rng, letters=LETTERS):
    """`_auto_commit` switched off through set_option (no stock schema does that by itself), so a selection that
    converts the whole input leaves a fully converted composition behind: the last segment is then empty (or
    every segment is closed) with the caret at its start - the state in which preedit / selection arithmetic
    and commit-text assembly are at their edge.  Combined with soft_cursor, caret moves and partial selections."""
    ops = ["opt _auto_commit 0"]
    if rng.random() < 0.6:
        ops.append("opt soft_cursor 1")
    for _ in range(rng.choice([1, 2, 3])):
        for _ in range(rng.choice([1, 2, 4, 6])):
            ops.append(key(ord(rng.choice(letters))))
        r = rng.random()
        if r < 0.5:
            ops.append(rng.choice(["sel 0", "selp 0", "sel 1", key(XK["space"]), key(ord("1")), key(ord("2"))]))
        elif r < 0.7:
            ops += [key(XK["Left"]), rng.choice(["sel 0", key(XK["space"])])]
        ops.append("getctx")
        if rng.random() < 0.4:
            ops.append(rng.choice([key(XK["BackSpace"]), key(XK["Left"]), key(XK["Home"]), key(XK["End"]), "caret 0", "caret 2",
                                   "opt soft_cursor 0", "opt soft_cursor 1"]))
            ops.append("getctx")
    ops.append(rng.choice(["commit", key(XK["Return"]), key(XK["space"]), "clear", key(XK["Escape"])]))
    ops += ["getcommit", "getctx"]
    return ops


AFFIX = {  # schema -> [(prefix, suffix, letters typed inside)]
    "luna_pinyin": [(":", ";", LETTERS), ("C:", ";", "abcdefghijklmnopqrstuvwy"), ("P:", ";", LETTERS), ("`", "'", "abcdefghijklmnopqrstuvwy")],
    "cangjie5": [("`", "'", LETTERS)],
}


def gen_affix_history(rng, schema):
    """Input that goes through an affix_segmentor / recognizer pattern of the stock schemas (luna_pinyin: `:`..`;`
    western text, `C:` cangjie lookup, `P:` pinyin, backtick reverse lookup; cangjie5: backtick pinyin lookup): the
    prefix and suffix become `phony` raw segments that the commit text must skip.  Typed as keys and, because an
    upper-case prefix cannot be typed into an empty composition, also given through set_input; followed by reads,
    selections (displayed candidates), paging, caret moves, the suffix, commit_composition and get_commit."""
    base = schema.replace("_fluid", "")
    prefix, suffix, letters = rng.choice(AFFIX.get(base, AFFIX["cangjie5"]))
    body = "".join(rng.choice(letters) for _ in range(rng.choice([0, 1, 2, 2, 3, 4])))
    ops = ["getctx"]
    lead = "".join(rng.choice(LETTERS) for _ in range(rng.choice([0, 0, 0, 2, 4])))
    text = lead + prefix + body
    if rng.random() < 0.5:
        ops.append("input " + text.encode().hex())
    else:
        ops += [key(ord(ch)) for ch in text]
    ops.append("getctx")
    for _ in range(rng.randrange(0, 4)):
        r = rng.random()
        if r < 0.3:
            ops.append(key(ord(rng.choice(letters))))
        elif r < 0.5:
            ops.append(rng.choice([key(XK["Down"]), key(XK["Next"]), "page 0", "hl 1", key(XK["Left"]), key(XK["BackSpace"]), "caret 1", "caret 2"]))
        elif r < 0.6:
            ops.append(key(ord(suffix)))
        else:
            ops.append("getctx")
    ops.append("getctx")
    end = rng.random()
    if end < 0.4:
        ops += ["commit", "getcommit"]
    elif end < 0.7:
        ops += [rng.choice(["sel 0", "selp 0", "sel 1", "selp 1", "sel 2"]), "getctx", "commit", "getcommit"]
    elif end < 0.85:
        ops += [key(ord(suffix)), "getctx", "commit", "getcommit"]
    else:
        ops += [key(XK["space"]), "getcommit"]
    ops += ["getctx", "getcommit"]
    return ops
