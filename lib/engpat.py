"""Round-3 history patterns for the session checks (C02, C03, C05, C01): shapes that independently seeded
changes needed in order to manifest and that the general generators of englib.py reach too rarely.
Same op-line format as englib (docs/ENG.md section 2).  Every function takes a random.Random and returns a
list of op lines; none of them depends on anything but that PRNG state."""
import englib
from englib import XK, key, LETTERS

CTRL, SHIFT = englib.CTRL, englib.SHIFT
HOTKEYS = [(XK["F4"], 0), (XK["F4"], 0), (XK["grave"], CTRL), (XK["grave"], CTRL | SHIFT)]


def gen_switcher_history(rng, schema_letters=LETTERS):
    """The schema switcher (stock workspaces only; the synthetic workspace has no hot key): opened on an idle
    session or in the middle of a composition, read while open (get_context / get_status views of the SAME
    state must agree), API-level clear/commit/option/caret/select calls while its menu shows, keys inside
    the menu, closing by Escape or by a selection, and composing again afterwards."""
    ops = []
    if rng.random() < 0.6:
        for _ in range(rng.choice([1, 2, 3, 5])):
            ops.append(key(ord(rng.choice(schema_letters))))
        if rng.random() < 0.3:
            ops.append(key(XK["Left"]))
    if rng.random() < 0.3:
        ops.append("opt %s %d" % (rng.choice(["soft_cursor", "_auto_commit", "_fold_options", "ascii_mode"]), rng.randrange(2)))
    for _ in range(rng.choice([1, 1, 2])):
        ops.append(key(*rng.choice(HOTKEYS)))
    ops.append(rng.choice(["getctx", "getstatus", "getinput"]))
    for _ in range(rng.randrange(0, 5)):
        r = rng.random()
        if r < 0.35:
            ops.append(key(rng.choice([XK["Down"], XK["Up"], XK["Next"], XK["Prior"], XK["Home"], XK["End"]])))
        elif r < 0.55:
            ops.append(rng.choice(["clear", "commit", "getcommit", "caret 0", "caret 3", "page 0", "page 1",
                                   "hl 1", "hlp 1", "hl 7", "input 6e69", "input -"]))
        elif r < 0.75:
            ops.append("opt %s %d" % (rng.choice(["soft_cursor", "_auto_commit", "ascii_mode", "full_shape", "simplification",
                                                 "_fold_options", "zz"]), rng.randrange(2)))
        elif r < 0.9:
            ops.append(key(ord(rng.choice(schema_letters + "123"))))
        else:
            ops.append(key(*rng.choice(HOTKEYS)))
        if rng.random() < 0.4:
            ops.append(rng.choice(["getctx", "getstatus"]))
    end = rng.random()
    if end < 0.3:
        ops.append(key(XK["Escape"]))
    elif end < 0.55:
        ops.append(rng.choice(["sel 0", "selp 0", "sel 1", "selp 1", key(ord("1")), key(ord("2")), key(XK["space"]), key(XK["Return"])]))
    elif end < 0.7:
        ops.append(rng.choice(["clear", "commit"]))
    ops.append("getctx")
    for _ in range(rng.choice([0, 2, 4])):
        ops.append(key(ord(rng.choice(schema_letters))))
    if rng.random() < 0.5:
        ops.append(rng.choice([key(XK["space"]), "commit", "sel 0", key(XK["Escape"])]))
    ops.append("getctx")
    return ops


def gen_no_autocommit_history(rng, letters=LETTERS):
    """`_auto_commit` switched off through set_option (no stock schema does that by itself), so a selection that
    converts the whole input leaves a fully converted composition behind: the last segment is then empty (or
    every segment is closed) with the caret at its start - the state in which preedit / selection arithmetic
    and commit-text assembly are at their edge.  Combined with soft_cursor, caret moves and partial selections."""
    ops = ["opt _auto_commit 0"]
    if rng.random() < 0.6:
        ops.append("opt soft_cursor 1")
    for _ in range(rng.choice([1, 2, 3])):
        for _ in range(rng.choice([1, 2, 4, 6])):
            ops.append(key(ord(rng.choice(letters))))
        r = rng.random()
        if r < 0.5:
            ops.append(rng.choice(["sel 0", "selp 0", "sel 1", key(XK["space"]), key(ord("1")), key(ord("2"))]))
        elif r < 0.7:
            ops += [key(XK["Left"]), rng.choice(["sel 0", key(XK["space"])])]
        ops.append("getctx")
        if rng.random() < 0.4:
            ops.append(rng.choice([key(XK["BackSpace"]), key(XK["Left"]), key(XK["Home"]), key(XK["End"]), "caret 0", "caret 2",
                                   "opt soft_cursor 0", "opt soft_cursor 1"]))
            ops.append("getctx")
    ops.append(rng.choice(["commit", key(XK["Return"]), key(XK["space"]), "clear", key(XK["Escape"])]))
    ops += ["getcommit", "getctx"]
    return ops
