"""C01, round 3: (a) script lines AIMED at the node a schema mutant changed (or a schema variant configures), so that the
component that reads that node is driven through the code paths that consult it, repeatedly and in the states its
condition names; (b) VARIANTS: valid, unusual configurations of the synthetic schemas (not type mutations) that exercise
configuration-dependent paths no stock schema takes (key-binder redirect chains and cycles, bindings to bound keys,
punctuation definitions of every shape on one key, select keys that are also spelling letters, ...).

Script line format: harness/common/session_ops.h (`<logical session> <op> <args>`); every random choice from the rnd given."""
import copy

NAMED = {"minus": 0x2d, "equal": 0x3d, "comma": 0x2c, "period": 0x2e, "space": 0x20, "slash": 0x2f, "semicolon": 0x3b,
         "apostrophe": 0x27, "grave": 0x60, "bracketleft": 0x5b, "bracketright": 0x5d, "backslash": 0x5c,
         "Up": 0xff52, "Down": 0xff54, "Left": 0xff51, "Right": 0xff53, "Home": 0xff50, "End": 0xff57,
         "Page_Up": 0xff55, "Page_Down": 0xff56, "Prior": 0xff55, "Next": 0xff56, "Delete": 0xffff, "BackSpace": 0xff08,
         "Escape": 0xff1b, "Return": 0xff0d, "Tab": 0xff09, "ISO_Left_Tab": 0xfe20, "F4": 0xffc1,
         "Shift_L": 0xffe1, "Shift_R": 0xffe2, "Control_L": 0xffe3, "Control_R": 0xffe4, "Caps_Lock": 0xffe5}
MODS = {"Shift": 1, "Lock": 2, "Control": 4, "Alt": 8, "Release": 1 << 30}


def parse_key(text):
    """'Control+Shift+1' -> (code, mask) or None (only names this module knows; a miss just gives fewer aimed lines)"""
    if not isinstance(text, str) or not text:
        return None
    parts = text.split("+")
    mask = 0
    for m in parts[:-1]:
        if m not in MODS:
            return None
        mask |= MODS[m]
    name = parts[-1]
    if name in NAMED:
        return NAMED[name], mask
    if len(name) == 1 and 0x20 <= ord(name) < 0x7f:
        return ord(name), mask
    return None


def _typing(rnd, lg, alpha, n=None):
    return ["%d key %d 0" % (lg, ord(rnd.choice(alpha))) for _ in range(n if n is not None else rnd.choice([1, 2, 3, 5]))]


def _state_for(rnd, lg, when, alpha):
    """lines that bring the session into the state a key-binder condition names"""
    if when == "always":
        return _typing(rnd, lg, alpha) if rnd.random() < 0.5 else []
    ls = _typing(rnd, lg, alpha, rnd.choice([1, 2, 4]))
    if when == "paging":
        ls += ["%d key %d 0" % (lg, NAMED["Page_Down"])] * rnd.choice([1, 2])
    return ls


def aimed(rnd, tree, path, alpha, lg=1):
    """Script lines aimed at `path` (a tuple of keys/indices into the schema tree; may be None for variants: then every
    section present is visited)."""
    out = []
    top = path[0] if path else None
    sections = [top] if top else ["punctuator", "key_binder", "switches", "recognizer", "menu", "speller"]
    for sec in sections:
        if sec == "punctuator":
            node = tree.get("punctuator") if isinstance(tree, dict) else None
            keys = []
            if path and len(path) >= 3 and path[1] in ("half_shape", "full_shape", "symbols") and isinstance(path[2], str):
                keys = [path[2]]
            elif isinstance(node, dict):
                for shape in ("half_shape", "full_shape"):
                    if isinstance(node.get(shape), dict):
                        keys += [k for k in node[shape] if isinstance(k, str)]
            keys = [k for k in keys if len(k) == 1 and 0x20 <= ord(k) < 0x7f] or list(",.(/\"!<")
            # every key of the table in turn (an aimed block must not depend on luck to reach the one key whose definition is odd)
            order = list(dict.fromkeys(keys))
            rnd.shuffle(order)
            for k in order[:16]:
                if rnd.random() < 0.4:
                    out += _typing(rnd, lg, alpha)
                if rnd.random() < 0.3:
                    out.append("%d set_option %s %d" % (lg, rnd.choice(["full_shape", "ascii_punct"]), rnd.randint(0, 1)))
                # the same punctuation key several times in a row: unique / alternating / pair / commit definitions differ
                # exactly from the second press on
                out += ["%d key %d 0" % (lg, ord(k))] * rnd.choice([2, 2, 3, 5])
                out.append("%d %s" % (lg, rnd.choice(["get_context", "key 32 0", "key 65293 0", "select_on_page 0", "get_commit",
                                                     "key 65307 0", "page 0", "highlight 1", "delete 0"])))
        elif sec == "key_binder":
            node = tree.get("key_binder") if isinstance(tree, dict) else None
            binds = node.get("bindings") if isinstance(node, dict) else None
            cand = []
            if isinstance(binds, list):
                idx = path[2] if path and len(path) >= 3 and isinstance(path[2], int) and path[2] < len(binds) else None
                for b in ([binds[idx]] if idx is not None else binds):
                    if isinstance(b, dict):
                        cand.append((b.get("when") if isinstance(b.get("when"), str) else "composing", parse_key(b.get("accept"))))
            cand = [(w, k) for w, k in cand if k] or [("composing", (ord("k"), 4)), ("has_menu", (0x2d, 0)), ("always", (ord("1"), 5))]
            for _ in range(rnd.choice([2, 3, 4])):
                w, (code, mask) = rnd.choice(cand)
                out += _state_for(rnd, lg, w, alpha)
                out += ["%d key %d %d" % (lg, code, mask)] * rnd.choice([1, 1, 2])
                out.append("%d get_context" % lg)
        elif sec == "switches":
            for _ in range(2):
                out += ["%d key %d %d" % (lg, *rnd.choice([(0xffc1, 0), (0x60, 4)]))] * rnd.choice([1, 2])
                out += ["%d key %d 0" % (lg, rnd.choice([0xff54, 0xff52, 0x31, 0x32, 0x33, 0x34, 0x20, 0xff0d]))
                        for _ in range(rnd.randint(1, 5))]
                out.append("%d state_label %s %d" % (lg, rnd.choice(["ascii_mode", "full_shape", "zh_simp", "zh_trad", "ascii_punct",
                                                                      "extended_charset"]), rnd.randint(0, 2)))
                out.append("%d key 65307 0" % lg)
        elif sec == "recognizer":
            for pre in rnd.sample(["`", ":", "T:", "www.", "A", "a@"], 3):
                out += ["%d key %d 0" % (lg, ord(c)) for c in pre] + _typing(rnd, lg, alpha, 2)
                out += ["%d get_context" % lg, "%d %s" % (lg, rnd.choice(["key 32 0", "key 59 0", "key 39 0", "commit", "key 65307 0"]))]
        elif sec == "menu":
            out += _typing(rnd, lg, alpha, 2) + ["%d get_context" % lg, "%d key %d 0" % (lg, ord(rnd.choice("1234567890"))),
                                                  "%d get_context" % lg]
        elif sec == "speller":
            out += _typing(rnd, lg, alpha, 4) + ["%d key %d 0" % (lg, rnd.choice([0x27, 0x20, 0x3b, 0xff08]))] + _typing(rnd, lg, alpha, 3)
            out.append("%d get_context" % lg)
    return out


def variants(trees):
    """[(schema id, name, tree)]: valid configurations of the synthetic schemas that differ from the stock shape"""
    out = []
    vt = trees["vt"]

    def with_bindings(bs, name, sid="vt"):
        t = copy.deepcopy(trees[sid])
        t.setdefault("key_binder", {})
        if not isinstance(t["key_binder"], dict):
            t["key_binder"] = {}
        t["key_binder"]["bindings"] = bs
        out.append((sid, "variant:key_binder:" + name, t))

    # a binding whose target is itself bound (chains), or leads back to itself (cycles): the replayed key must not be looked
    # up in the bindings again
    with_bindings([{"when": "composing", "accept": "comma", "send": "comma"},
                   {"when": "has_menu", "accept": "period", "send": "period"}], "self-send")
    with_bindings([{"when": "has_menu", "accept": "Control+z", "send": "Control+x"},
                   {"when": "has_menu", "accept": "Control+x", "send": "Control+z"}], "two-cycle")
    with_bindings([{"when": "composing", "accept": "Control+j", "send_sequence": "{Control+j}a{Control+j}"},
                   {"when": "always", "accept": "Control+u", "send_sequence": "ni{Control+u}"}], "sequence-containing-itself")
    with_bindings([{"when": "composing", "accept": "Tab", "send": "Control+k"},
                   {"when": "composing", "accept": "Control+k", "send": "Shift+Delete"},
                   {"when": "always", "accept": "Control+Shift+3", "select": "vtab"},
                   {"when": "always", "accept": "Control+Shift+4", "set_option": "ascii_mode"},
                   {"when": "always", "accept": "Control+Shift+5", "unset_option": "ascii_mode"},
                   {"when": "paging", "accept": "minus", "send": "Page_Up"},
                   {"when": "has_menu", "accept": "equal", "send": "Page_Down"}], "chain-and-options")
    with_bindings([{"when": "has_menu", "accept": "Control+z", "send": "Control+x"},
                   {"when": "has_menu", "accept": "Control+x", "send": "Control+z"},
                   {"when": "composing", "accept": "comma", "send": "comma"}], "cycles", sid="vtab")
    # punctuation: every definition shape, also empty ones, on keys that are easy to press repeatedly
    t = copy.deepcopy(vt)
    t["punctuator"] = {"half_shape": {",": "，", ".": ["。", "．", "…"], "(": [], "/": [[], {}], "!": {"commit": "！"},
                                      "\"": {"pair": ["“", "”"]}, "<": {"pair": ["《"]}, ">": {"pair": []}, "[": {"commit": ""},
                                      "]": {}, "-": None, "=": ["＝"], "1": ["一", "壹"]},
                       "full_shape": {",": ["，", ","], "(": {"pair": ["（", "）"]}, " ": {"commit": "　"}}}
    out.append(("vt", "variant:punctuator:every-shape", t))
    # select keys that are spelling letters / punctuation; page size 1; labels shorter than the page
    t = copy.deepcopy(vt)
    t["menu"] = {"page_size": 1, "alternative_select_keys": "a", "alternative_select_labels": []}
    out.append(("vt", "variant:menu:page-size-1", t))
    t = copy.deepcopy(vt)
    t["menu"] = {"page_size": 9, "alternative_select_keys": ",./;", "alternative_select_labels": ["x"]}
    out.append(("vt", "variant:menu:punct-select-keys", t))
    # round 4: ragged switch definitions - labels of another type at the first / a later position of every toggle and radio group,
    # label lists shorter or longer than the options, an option list with a non-scalar entry, a radio group of one option, two
    # radio groups in a row (the switcher's menu, state labels and the key binder's toggle all read them)
    for pos, repl, name in ((0, ["x"], "first-label-list"), (1, {"x": "y"}, "second-label-map"), (0, None, "first-label-null"),
                            (0, "", "first-label-empty")):
        t = copy.deepcopy(vt)
        for sw in t.get("switches", []):
            if isinstance(sw, dict) and isinstance(sw.get("states"), list) and len(sw["states"]) > pos:
                sw["states"][pos] = copy.deepcopy(repl)
        out.append(("vt", "variant:switches:" + name, t))
    t = copy.deepcopy(vt)
    t["switches"] = [{"options": ["zh_trad", "zh_simp", "zh_tw"], "states": [["x"], "简化"], "abbrev": ["繁"]},
                     {"options": ["opt_a"], "states": ["甲", "乙", "丙"]},
                     {"options": ["opt_b", ["x"], "opt_c"], "states": [None, "B", "C"], "reset": 2},
                     {"name": "ascii_mode", "states": ["中文"], "reset": 1},
                     {"name": "full_shape", "states": [], "abbrev": ["半", "全"]},
                     {"options": [], "states": []}]
    out.append(("vt", "variant:switches:ragged-groups", t))
    return out
