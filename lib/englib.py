"""Shared plumbing of the Eng session checks (C05, C02; reusable by C03/C04/C16/C01).

  build()                  -> (impl_exe, model_exe): harness/eng/session.cc linked against the
                              sanitizer build of /repo's working tree; extracted model runner
  prepare_workspaces(ctx)  -> scratch work dir holding a deployed synth and stock workspace
  run_impl / run_model     -> observation lines per history
  History generators (one PRNG), observation-line parser, delta-debugging shrinker.

History/observation formats: docs/ENG.md, harness/eng/session.cc.
"""
import os
import random
import re
import shutil

import vlib

HARNESS = os.path.join(vlib.VERIF, "harness", "eng", "session.cc")
DRIVER = os.path.join(vlib.VERIF, "ocaml", "eng", "driver.ml")
ENV = {"ASAN_OPTIONS": "detect_leaks=0:abort_on_error=0", "UBSAN_OPTIONS": "print_stacktrace=1"}

OPENCC = "/usr/share/opencc"
SYNTH = ["synth_express", "synth_fluid"]
SYNTH_PUNCT = ["synth_punct_express", "synth_punct_fluid"]   # + punctuator, punct_segmentor, punct_translator
SYNTH_KB = ["synth_kb_express", "synth_kb_fluid"]             # + key_binder first (bindings: coq/Eng/Oracle.v synth_bindings)
STOCK = ["luna_pinyin", "luna_pinyin_fluid", "cangjie5", "cangjie5_fluid"]

# keysyms
XK = dict(space=0x20, BackSpace=0xff08, Tab=0xff09, Return=0xff0d, Escape=0xff1b, Delete=0xffff, Home=0xff50,
          Left=0xff51, Up=0xff52, Right=0xff53, Down=0xff54, Prior=0xff55, Next=0xff56, End=0xff57,
          KP_Home=0xff95, KP_Left=0xff96, KP_Up=0xff97, KP_Right=0xff98, KP_Down=0xff99, KP_Prior=0xff9a,
          KP_Next=0xff9b, KP_End=0xff9c, KP_0=0xffb0, KP_9=0xffb9, F4=0xffc1, Shift_L=0xffe1, Shift_R=0xffe2,
          Control_L=0xffe3, Control_R=0xffe4, Caps_Lock=0xffe5, grave=0x60)
SHIFT, LOCK, CTRL, ALT, SUPER, RELEASE = 1, 2, 4, 8, 1 << 26, 1 << 30


def build(flavour="asan"):
    b = vlib.librime_build(flavour)
    exe = vlib.cxx_build(os.path.join(vlib.WORK, "bin", "eng-session-" + flavour), [HARNESS],
                         flags='-I%s/src -DVERIF_REPO=\\"%s\\"' % (b, vlib.REPO),
                         libs="-L%s/lib -lrime -lglog -Wl,-rpath,%s/lib" % (b, b), san=(flavour == "asan"))
    return exe


def build_model():
    ok, log = vlib.coq_make(["Eng/Oracle.vo", "Eng/Spec.vo"])
    if not ok:
        raise vlib.BuildError("the Eng model does not compile:\n" + log[-4000:])
    return vlib.ocaml_build("eng", "Extract_Eng.v", DRIVER)


def _read(p):
    with open(p, errors="replace") as f:
        return f.read()


def stock_extra_files():
    """Files added to the copy of data/minimal: fluid variants of the two stock schemas and
    *.custom.yaml patches that switch the user dictionaries off (histories stay independent)."""
    data = os.path.join(vlib.REPO, "data", "minimal")
    extra = {}
    for sid in ("luna_pinyin", "cangjie5"):
        y = _read(os.path.join(data, sid + ".schema.yaml"))
        y = y.replace("schema_id: " + sid, "schema_id: " + sid + "_fluid").replace("- express_editor", "- fluid_editor")
        extra[sid + "_fluid.schema.yaml"] = y
    extra["default.custom.yaml"] = ("patch:\n  schema_list:\n    - schema: luna_pinyin\n    - schema: cangjie5\n"
                                    "    - schema: luna_pinyin_fluid\n    - schema: cangjie5_fluid\n")
    for sid in STOCK:
        extra[sid + ".custom.yaml"] = ('patch:\n  "translator/enable_user_dict": false\n'
                                       '  "cangjie/enable_user_dict": false\n')
    return extra


def prepare_workspaces(work, flavour="asan", stock=True):
    """work/synth is deployed by the harness itself on first use (< 1 s); work/stock is a private
    copy of the cached, rime_deployer-built template (vlib.stock_workspace)."""
    os.makedirs(work, exist_ok=True)
    if stock and not os.path.exists(os.path.join(work, "stock", ".deployed")):
        tmpl = vlib.stock_workspace(flavour, extra_shared=stock_extra_files(), name="eng")
        vlib.copy_workspace(tmpl, os.path.join(work, "stock"))
        if os.path.isdir(OPENCC):      # the simplifier's dictionaries (zh_simp, zh_tw, simplification)
            shutil.copytree(OPENCC, os.path.join(work, "stock", "shared", "opencc"), dirs_exist_ok=True)
        with open(os.path.join(work, "stock", ".deployed"), "w") as f:
            f.write("1")
    return work


def write_histories(path, histories):
    with open(path, "w") as f:
        for schema, ops in histories:
            f.write("schema %s\n" % schema)
            for o in ops:
                f.write(o + "\n")


def split_output(out):
    """-> list of (header, [lines]) per history."""
    res = []
    for l in out.split("\n"):
        if not l.strip():
            continue
        if l.startswith("== "):
            res.append((l, []))
        elif res:
            res[-1][1].append(l)
    return res


def run_impl(exe, work, kind, histories, tag="h", timeout=1500):
    """Run the real code.  Returns (per_history_output, rc, stderr)."""
    p = os.path.join(work, "%s-%s.txt" % (tag, kind))
    write_histories(p, histories)
    rc, out, err = vlib.sh2([exe, work, kind, p], timeout=timeout, env=ENV)
    return split_output(out), rc, err


def run_model(exe, histories, dlog=True, mode="model", timeout=1500, extra_stdin=None):
    lines = []
    for schema, ops in histories:
        lines.append("schema " + schema)
        lines += ops
    rc, out, err = vlib.sh2([exe, mode, "dlog" if dlog else "nodlog"], stdin="\n".join(lines) + "\n", timeout=timeout)
    return split_output(out), rc, err


FIELD = re.compile(r"(\w+)=(\S*)")


def parse_obs(line):
    """Observation line -> dict (ret plus the key=value fields; byte strings stay hex, '-' = empty)."""
    if line.startswith("CRASH") or line.startswith("BADOP"):
        return {"crash": line}
    ret, _, rest = line.partition(" ")
    d = {"ret": ret}
    for k, v in FIELD.findall(rest):
        d[k] = v
    for k in ("K", "pl", "pc", "ss", "se", "ps", "pg", "hl", "n"):
        if k in d:
            d[k] = int(d[k])
    return d


def unhex(h):
    return b"" if h in ("-", "") else bytes.fromhex(h)


# ---------------------------------------------------------------------------
# generators
# ---------------------------------------------------------------------------

LETTERS = "abcdefghijklmnopqrstuvwxyz"


def key(code, mask=0):
    return "key %d %d" % (code, mask)


def gen_edit_history(rng, length, letters=LETTERS):
    """C05 alphabet: spelling letters, BackSpace, Delete, KP_Left, KP_Right, Home, End, Escape.
    Biased to long inputs, carets in the middle and the two boundaries."""
    ops = []
    style = rng.random()
    p_letter = 0.75 if style < 0.5 else (0.5 if style < 0.85 else 0.3)
    p_escape = 0.01 if style < 0.7 else 0.05
    while len(ops) < length:
        r = rng.random()
        if r < p_letter:
            # bursts of letters build long inputs
            for _ in range(rng.choice([1, 1, 2, 3, 5])):
                ops.append(key(ord(rng.choice(letters))))
        elif r < p_letter + p_escape:
            ops.append(key(XK["Escape"]))
        else:
            k = rng.choice(["BackSpace", "Delete", "KP_Left", "KP_Left", "KP_Right", "KP_Right", "Home", "End"])
            # runs of moves reach the middle of long inputs and wrap around at both ends
            for _ in range(rng.choice([1, 1, 2, 4, 7])):
                ops.append(key(XK[k]))
    return ops[:length]


KEY_POOL = ([ord(c) for c in LETTERS] * 3 + [ord(c) for c in "0123456789"] + [ord(c) for c in " ',.;/-=[]`ABCXYZ!@~"] +
            [XK[k] for k in ("space", "BackSpace", "Tab", "Return", "Escape", "Delete", "Home", "Left", "Up", "Right",
                             "Down", "Prior", "Next", "End", "KP_Home", "KP_Left", "KP_Up", "KP_Right", "KP_Down",
                             "KP_Prior", "KP_Next", "KP_End", "KP_0", "KP_9")] * 2 + [0xffb1, 0xffb5, 0xff8d])
MASK_POOL = [0] * 12 + [SHIFT, SHIFT, CTRL, CTRL, ALT, SUPER, RELEASE, LOCK, SHIFT | CTRL, CTRL | ALT, SHIFT | RELEASE,
                        CTRL | SHIFT | ALT]
OPTIONS = ["ascii_mode", "_linear", "_vertical", "_horizontal", "soft_cursor", "_auto_commit", "dumb", "simplification",
           "full_shape", "ascii_punct", "zz", "verif_short", "verif_short"]
SIZE_MAX = (1 << 64) - 1


def rand_index(rng, big=True):
    r = rng.random()
    if r < 0.55:
        return rng.randrange(0, 6)
    if r < 0.85:
        return rng.randrange(0, 30)
    if not big:
        return rng.randrange(0, 200)
    return rng.choice([99, 1000, (1 << 31) - 1, 1 << 31, (1 << 32) - 1, 1 << 32, (1 << 32) + 1, (1 << 63), SIZE_MAX - 1,
                       rng.randrange(0, 1 << 64)])


def rand_key(rng, arbitrary=0.05):
    if rng.random() < arbitrary:
        code = rng.choice([0, -1, 1 << 31 - 1, -(1 << 31), rng.randrange(-(1 << 31), 1 << 31), rng.randrange(0, 0x10000)])
        mask = rng.choice([0, -1, rng.randrange(-(1 << 31), 1 << 31), rng.randrange(0, 64)])
        return code, mask
    return rng.choice(KEY_POOL), rng.choice(MASK_POOL)


STOCK_EXCLUDED_KEYS = {(XK["F4"], 0), (XK["grave"], CTRL), (XK["grave"], CTRL | SHIFT), (ord("1"), CTRL | SHIFT)}
STOCK_EXCLUDED_CODES = {XK["Shift_L"], XK["Shift_R"], XK["Control_L"], XK["Control_R"], XK["Caps_Lock"]}


def gen_api_history(rng, length, stock=False, highlight_max=False):
    """All ops with arbitrary arguments (C02 / C01 style).  stock=True keeps away from the keys that
    open the schema switcher or switch the schema (outside the modelled scope) and from the
    timing-dependent modifier taps of ascii_composer."""
    ops = []
    typing = rng.choice([0.35, 0.5, 0.7])
    while len(ops) < length:
        r = rng.random()
        if r < typing:
            for _ in range(rng.choice([1, 2, 3, 6])):
                ops.append(key(ord(rng.choice(LETTERS if rng.random() < 0.9 else "xuv"))))
        elif r < typing + 0.08:
            # a burst of menu navigation: reaches later pages / highlights beyond the first candidate
            nav = rng.choice([["key %d 0" % XK["Next"]], ["key %d 0" % XK["Down"]], ["page 0"], ["hl %d" % rng.randrange(0, 14)],
                              ["key %d 0" % XK["Next"], "key %d 0" % XK["Down"]], ["page 0", "key %d 0" % XK["Up"]],
                              ["key %d 0" % XK["Prior"]], ["page 1"], ["hlp %d" % rng.randrange(0, 6)]])
            for _ in range(rng.choice([1, 2, 3])):
                ops.extend(nav)
        elif r < typing + 0.25:
            code, mask = rand_key(rng)
            if stock and ((code, mask) in STOCK_EXCLUDED_KEYS or code in STOCK_EXCLUDED_CODES):
                continue
            ops.append(key(code, mask))
        else:
            k = rng.choice(["input", "caret", "caret", "sel", "selp", "hl", "hlp", "del", "delp", "del", "delp", "page",
                            "page", "commit", "clear", "getcommit", "getctx", "opt", "opt"])
            if k == "input":
                n = rng.choice([0, 1, 2, 3, 5, 8, 13, 30])
                alpha = LETTERS if rng.random() < 0.7 else LETTERS + " '1;.A"
                if rng.random() < 0.05:
                    s = bytes(rng.randrange(1, 256) for _ in range(n))
                else:
                    s = "".join(rng.choice(alpha) for _ in range(n)).encode()
                ops.append("input " + (s.hex() if s else "-"))
            elif k == "caret":
                ops.append("caret %d" % rng.choice([0, 1, 2, 3, 5, 8, 20, 1000, SIZE_MAX, rng.randrange(0, 12)]))
            elif k in ("sel", "selp", "del", "delp", "hlp"):
                ops.append("%s %d" % (k, rand_index(rng)))
            elif k == "hl":
                i = rand_index(rng)
                if i == SIZE_MAX and not highlight_max:
                    i = SIZE_MAX - 1
                ops.append("hl %d" % i)
            elif k == "page":
                ops.append("page %d" % rng.randrange(2))
            elif k == "opt":
                ops.append("opt %s %d" % (rng.choice(OPTIONS), rng.randrange(2)))
            else:
                ops.append(k)
    return ops[:length]


# ---------------------------------------------------------------------------
# comparison and shrinking
# ---------------------------------------------------------------------------

def first_diff(impl_lines, model_lines):
    """Index of the first differing observation line, or None.  A model CRASH line matches the end of
    the implementation's output (the real process is gone)."""
    for i in range(max(len(impl_lines), len(model_lines))):
        a = impl_lines[i] if i < len(impl_lines) else None
        b = model_lines[i] if i < len(model_lines) else None
        if a != b:
            if a is None and b is not None and b.startswith("CRASH"):
                return None
            return i
    return None


def shrink(ops, fails, budget=120):
    """Delta debugging on an op list: smallest sub-list (found within budget) for which fails(ops)."""
    ops = list(ops)
    n = 2
    tries = 0
    while len(ops) >= 2 and tries < budget:
        chunk = max(1, len(ops) // n)
        reduced = False
        i = 0
        while i < len(ops) and tries < budget:
            cand = ops[:i] + ops[i + chunk:]
            tries += 1
            if cand and fails(cand):
                ops = cand
                n = max(n - 1, 2)
                reduced = True
            else:
                i += chunk
        if not reduced:
            if chunk == 1:
                break
            n = min(len(ops), n * 2)
    return ops


# ---------------------------------------------------------------------------
# resilient running (a sanitizer abort ends the process: keep the transcript, go on)
# ---------------------------------------------------------------------------

def run_impl_resilient(exe, work, kind, histories, tag="h", max_crashes=4, timeout=1500):
    """Run all histories; after an abnormal end rerun the remaining ones.
    Returns (outputs aligned with histories [(header, lines)|None], crashes=[(index, rc, stderr)])."""
    outs = [None] * len(histories)
    crashes = []
    start = 0
    while start < len(histories):
        res, rc, err = run_impl(exe, work, kind, histories[start:], tag=tag, timeout=timeout)
        for j, r in enumerate(res):
            outs[start + j] = r
        if rc == 0 and len(res) == len(histories) - start:
            break
        bad = start + max(len(res) - 1, 0)
        crashes.append((bad, rc, err[-5000:]))
        start = bad + 1
        if len(crashes) >= max_crashes:
            break
    return outs, crashes


def wf_flags(model_exe, lines):
    """C02 oracle (extracted Spec.wf_viewb / wf_view_utf8b) on observation lines -> [(core, utf8)]."""
    rc, out, err = vlib.sh2([model_exe, "wf"], stdin="\n".join(lines) + "\n", timeout=900)
    res = []
    for l in out.split("\n"):
        if l.strip():
            a, _, b = l.partition(" ")
            res.append((a, b))
    return res


def buf_expected(model_exe, histories):
    """C05 oracle (extracted buffer spec) -> per history list of expected 'h I=.. K=..' strings."""
    res, rc, err = run_model(model_exe, histories, mode="buf")
    return [r[1] for r in res]


def edit_got(line):
    d = parse_obs(line)
    if "crash" in d:
        return line, "?"
    return "%s I=%s K=%d" % (d["ret"], d["I"], d["K"]), d.get("C", "?")


# ---------------------------------------------------------------------------
# C03: histories that reach multi-segment compositions, selections, commits and reads
# ---------------------------------------------------------------------------

def gen_commit_history(rng, length, stock=False):
    """Typing bursts, partial/full selections (API and digit keys), caret moves, reopened segments
    (BackSpace), confirm keys of both editors (space, Return with modifiers), commit_composition,
    interleaved get_commit reads.  Never touches full_shape or the switcher."""
    ops = ["getctx"]
    punct = ",.`'" if stock else "'"
    while len(ops) < length:
        r = rng.random()
        if r < 0.34:
            for _ in range(rng.choice([1, 2, 3, 4, 6, 9])):
                ops.append(key(ord(rng.choice(LETTERS))))
        elif r < 0.52:
            k = rng.choice(["sel", "sel", "selp", "selp", "digit"])
            if k == "digit":
                ops.append(key(ord(rng.choice("12345"))))
            else:
                ops.append("%s %d" % (k, rng.choice([0, 0, 1, 2, 3, 4, 5, 7, 9, 11, 14, rng.randrange(0, 25)])))
        elif r < 0.62:
            ops.append(rng.choice(["commit", "commit", key(XK["space"]), key(XK["Return"]), key(XK["Return"], CTRL),
                                   key(XK["Return"], SHIFT), key(XK["space"])]))
        elif r < 0.76:
            ops.append("getcommit")
            if rng.random() < 0.5:
                ops.append("getcommit")
        elif r < 0.86:
            mv = rng.choice([key(XK["KP_Left"]), key(XK["Left"]), key(XK["Home"]), key(XK["End"]), key(XK["KP_Right"]),
                             "caret %d" % rng.randrange(0, 10), key(XK["BackSpace"]), key(XK["BackSpace"]),
                             key(XK["Escape"]), key(XK["Delete"])])
            for _ in range(rng.choice([1, 1, 2, 3])):
                ops.append(mv)
        elif r < 0.93:
            ops.append(rng.choice(["page 0", "page 1", key(XK["Next"]), key(XK["Down"]), key(XK["Up"]),
                                   "hl %d" % rng.randrange(0, 12), "hlp %d" % rng.randrange(0, 5)]))
        elif r < 0.97:
            ops.append(key(ord(rng.choice(punct))))
        else:
            ops.append(rng.choice(["clear", "getctx", "opt soft_cursor %d" % rng.randrange(2),
                                   "input " + "".join(rng.choice(LETTERS) for _ in range(rng.randrange(1, 9))).encode().hex()]))
    return ops[:length]


# ---------------------------------------------------------------------------
# C05: long inputs (more than 128 spelling letters in front of the caret)
# ---------------------------------------------------------------------------

def long_edit_histories(lengths, cheap="ni"):
    """Histories that type n letters (n > 128: a segmentor that cuts spellings into chunks shows only
    there) and then apply each short tail of editing keys.  cheap: the repeated letters."""
    tails = [["Escape"], ["Home", "Escape"], ["KP_Left"] * 3 + ["Escape"], ["BackSpace", "Escape"], ["Delete", "End", "Escape"],
             ["End", "Escape", "KP_Left"], ["Home", "Delete", "KP_Right", "Escape"], ["KP_Left"] * 140 + ["Escape"]]
    res = []
    for n in lengths:
        typed = [key(ord(cheap[i % len(cheap)])) for i in range(n)]
        for t in tails:
            res.append(typed + [key(XK[k]) for k in t] + [key(ord("a")), key(XK["Escape"])])
    return res


# ---------------------------------------------------------------------------
# C02: navigator span cache after trailing deletions; option toggles after moving the highlight
# ---------------------------------------------------------------------------

SYLLABLES = ["ni", "hao", "ma", "zhong", "guo", "shi", "jie", "wo", "men", "de", "ab", "cd", "uv"]
MOVES = [(XK["Right"], CTRL), (XK["Left"], CTRL), (XK["Right"], SHIFT), (XK["Left"], SHIFT), (XK["Tab"], 0), (XK["Tab"], SHIFT),
         (XK["Right"], 0), (XK["Left"], 0)]


def gen_span_history(rng):
    """type a multi-syllable input; a navigator key (spans get recorded); End; BackSpace x k with no
    selection in between; one move; then each syllable-/character-wise move; reads after each step."""
    ops = ["getctx"]
    for syl in [rng.choice(SYLLABLES) for _ in range(rng.randrange(2, 6))]:
        ops += [key(ord(ch)) for ch in syl]
    ops.append(key(*rng.choice([(XK["Left"], 0), (XK["Left"], CTRL), (XK["Home"], 0), (XK["KP_Left"], 0), (XK["Right"], CTRL)])))
    ops.append(key(XK["End"]))
    ops += [key(XK["BackSpace"])] * rng.randrange(1, 5)
    ops.append("getinput")
    ops.append(key(*rng.choice([(XK["Left"], 0), (XK["KP_Left"], 0), (XK["Left"], CTRL), (XK["Right"], CTRL), (XK["KP_Right"], 0)])))
    moves = list(MOVES)
    rng.shuffle(moves)
    for m in moves:
        ops.append(key(*m))
        ops.append(rng.choice(["getinput", "getctx"]))
    return ops


STOCK_OPTIONS = ["zh_simp", "zh_tw", "zh_trad", "zh_hk", "simplification", "extended_charset", "full_shape", "ascii_punct"]


def gen_option_history(rng, stock):
    """type 1-2 syllables; move the highlight (Down / Page_Down / highlight); toggle an option that can
    change the candidate list; read the context."""
    ops = ["getctx"]
    for _ in range(rng.randrange(1, 4)):
        word = rng.choice(SYLLABLES + ["ei", "a", "yi", "shi", "ji"]) if stock else \
            "".join(rng.choice(LETTERS) for _ in range(rng.randrange(1, 5)))
        ops += [key(ord(ch)) for ch in word]
        for _ in range(rng.randrange(1, 7)):
            ops.append(rng.choice([key(XK["Down"]), key(XK["Down"]), key(XK["Next"]), "hl %d" % rng.randrange(0, 12), "page 0"]))
        opt = rng.choice(STOCK_OPTIONS) if stock else rng.choice(["verif_short", "verif_short", "soft_cursor", "zz"])
        ops.append("opt %s %d" % (opt, rng.randrange(2)))
        ops.append("getctx")
        if rng.random() < 0.5:
            ops.append("opt %s %d" % (opt, rng.randrange(2)))
            ops.append("getctx")
        ops.append(rng.choice([key(XK["Down"]), key(XK["Up"]), "getctx", key(XK["Escape"])]))
    return ops


# ---------------------------------------------------------------------------
# round 3: punctuation keys on the synth_punct_* schemas (harness/eng/session.cc: synth_punct_schema)
# ---------------------------------------------------------------------------

PUNCT_KEYS = ",.;\"'/:!$~#%^@ <"      # every key of the two tables (all four shapes + the malformed ones)


def gen_punct_history(rng, length, full_shape=True):
    """Punctuation keys pressed once and repeatedly (alternating lists, pairs with their oddness),
    with and without a composition in progress, digits before separators (the digit-separator
    paths need a "thru" record in the commit history), full_shape / ascii_punct toggles, confirm /
    reopen / caret moves in between, selections into the merged menu (punct candidates first,
    then the oracle translator's).  full_shape=False keeps the option off (C03's commit-is-preview
    clause is stated for full_shape off: the formatter widens committed text, not the preview)."""
    ops = []
    while len(ops) < length:
        r = rng.random()
        if r < 0.28:
            for _ in range(rng.choice([1, 1, 2, 3])):
                ops.append(key(ord(rng.choice(LETTERS))))
        elif r < 0.60:
            ch = rng.choice(PUNCT_KEYS)
            for _ in range(rng.choice([1, 1, 1, 2, 3, 4])):
                ops.append(key(ord(ch)))
        elif r < 0.69:
            ops.append(key(ord(rng.choice("0123456789"))))
            if rng.random() < 0.6:
                ops.append(key(ord(rng.choice(",.:'"))))
                if rng.random() < 0.5:
                    ops.append(key(ord(rng.choice("0123456789 ,."))))
        elif r < 0.77:
            ops.append(rng.choice(["opt full_shape %d" % rng.randrange(2), "opt ascii_punct %d" % rng.randrange(2),
                                   "opt full_shape 1", "opt full_shape 0"]) if full_shape else
                       "opt ascii_punct %d" % rng.randrange(2))
        elif r < 0.88:
            ops.append(key(XK[rng.choice(["space", "BackSpace", "BackSpace", "Return", "Escape", "Left", "KP_Left", "Home",
                                          "End", "Down", "Next", "Delete", "Right"])]))
        elif r < 0.95:
            ops.append(rng.choice(["sel %d" % rng.randrange(0, 10), "hl %d" % rng.randrange(0, 10), "commit", "getcommit",
                                   "caret %d" % rng.randrange(0, 6), "page 0", "clear",
                                   "input " + "".join(rng.choice(",.;3a<") for _ in range(rng.randrange(1, 4))).encode().hex()]))
        else:
            ops += [o for o in gen_api_history(rng, 3) if full_shape or not o.startswith("opt full_shape")]
    return ops[:length]


# ---------------------------------------------------------------------------
# round 3, stage 3: the key binder on the synth_kb_* schemas
# ---------------------------------------------------------------------------

KB_CTRL = [ord(c) for c in "pnbfhgsaecdkwqj"]     # Control+<letter> bindings (s: self-sending, a/e: cycle, c/j: chains, k: three bindings)


def gen_kb_history(rng, length, full_shape=True):
    """Bound keys in every condition (idle / composing / with a menu / after paging), the paging keys
    comma period minus equal with letters after a period (ReinterpretPagingKey), the option actions,
    the self-sending, cyclic and chained bindings, mixed with typing, punctuation, navigation and
    arbitrary API ops.  full_shape=False leaves out the binding that toggles full_shape (C03)."""
    ops = []
    opt_keys = [key(46, CTRL), key(50, CTRL | SHIFT), key(51, CTRL | SHIFT), key(XK["Tab"]), key(XK["Tab"], SHIFT)]
    if full_shape:
        opt_keys.append(key(52, CTRL | SHIFT))
    while len(ops) < length:
        r = rng.random()
        if r < 0.28:
            for _ in range(rng.choice([1, 1, 2, 3])):
                ops.append(key(ord(rng.choice(LETTERS))))
        elif r < 0.50:
            ops.append(key(rng.choice(KB_CTRL), CTRL))
        elif r < 0.66:
            ch = rng.choice(",.-=[,..")
            for _ in range(rng.choice([1, 1, 2, 3])):
                ops.append(key(ord(ch)))
        elif r < 0.72:
            ops.append(rng.choice(opt_keys))
        elif r < 0.84:
            ops += gen_punct_history(rng, 2, full_shape=full_shape)
        elif r < 0.93:
            ops.append(key(XK[rng.choice(["space", "BackSpace", "Return", "Escape", "Left", "Home", "End", "Down", "Next",
                                          "Prior", "Up"])]))
        else:
            ops += [o for o in gen_api_history(rng, 3) if full_shape or not o.startswith("opt full_shape")]
    return ops[:length]


# ---------------------------------------------------------------------------
# round 4, stage 2: ascii_composer / ascii_segmentor on the synth_ascii_* schemas
# ---------------------------------------------------------------------------

SYNTH_ACEDIT = ["synth_acedit_express", "synth_acedit_fluid"]  # ascii_composer + ascii_segmentor around the punctuator chain (C05's chain)
SYNTH_ASCII = ["synth_ascii_express", "synth_ascii_fluid"]   # stock chain order: ascii_composer, key_binder, speller, punctuator, ...
XK_EISU = 0xff30


def ac_tap(rng, name, quick=None):
    """press + release of a mode-switch key with the virtual clock advanced in between: within the 500 ms
    window (a toggle), exactly on its edge (499 / 500 / 501) or far beyond it"""
    code = XK[name]
    mod_bit = SHIFT if name.startswith("Shift") else CTRL
    if quick is None:
        quick = rng.random() < 0.7
    gap = rng.choice([0, 1, 120, 499]) if quick else rng.choice([500, 501, 900])
    return [key(code), "tick %d" % gap, key(code, mod_bit | RELEASE)]


def gen_ascii_history(rng, length, full_shape=True, stock=False):
    """Mode-switch keys of every style (taps of both Shifts and both Controls inside / on the edge of / beyond the
    tap window, interrupted taps, Caps_Lock with and without the Lock modifier, Eisu_toggle, releases without a
    press), typing in ascii mode while composing (inline ascii) and while idle, letters with Caps Lock on,
    candidates selected partially before a switch, mixed with the key binder's keys, punctuation, navigation
    and arbitrary API ops."""
    ops = []
    mods = ["Shift_L", "Shift_R", "Control_L", "Control_R"]
    while len(ops) < length:
        r = rng.random()
        if r < 0.25:
            for _ in range(rng.choice([1, 2, 3, 4])):
                ops.append(key(ord(rng.choice(LETTERS))))
        elif r < 0.45:
            ops += ac_tap(rng, rng.choice(mods))
        elif r < 0.50:
            # a tap interrupted by another key, two modifiers overlapping, or a release without a press
            a, b = rng.choice(mods), rng.choice(mods)
            ops += rng.choice([
                [key(XK[a]), key(ord(rng.choice(LETTERS)), SHIFT if a.startswith("Shift") else CTRL), key(XK[a], RELEASE | (SHIFT if a.startswith("Shift") else CTRL))],
                [key(XK[a]), key(XK[b]), "tick 10", key(XK[b], RELEASE), key(XK[a], RELEASE)],
                [key(XK[a]), key(XK[b]), "tick 10", key(XK[a], RELEASE), key(XK[b], RELEASE)],
                [key(XK[a], RELEASE)],
                [key(XK[a]), key(XK[a]), "tick 400", key(XK[a], RELEASE)],
            ])
        elif r < 0.58:
            lock = rng.choice([0, 0, LOCK])
            ops += rng.choice([[key(XK["Caps_Lock"], lock)], [key(XK["Caps_Lock"], lock), key(XK["Caps_Lock"], lock | RELEASE)],
                               [key(XK_EISU)], [key(XK_EISU), key(XK_EISU, RELEASE)]])
        elif r < 0.66:
            # typing with the Lock modifier set (Caps Lock on): letters, digits, punctuation, Control+letter
            for _ in range(rng.choice([1, 2, 3])):
                ch, mask = rng.choice("abzAZ19,. ;"), LOCK | rng.choice([0, 0, 0, SHIFT, CTRL, RELEASE])
                if not full_shape and ch == " " and mask & SHIFT:
                    mask &= ~SHIFT
                ops.append(key(ord(ch), mask))
        elif r < 0.74:
            # printable keys of every kind (ascii mode pushes them all, 0x7f included), some released
            for _ in range(rng.choice([1, 2, 3])):
                code, mask = rng.choice([0x20, 0x21, 0x2c, 0x30, 0x39, 0x41, 0x5a, 0x61, 0x7a, 0x7e, 0x7f, 0x80, 0x1f]), rng.choice([0, 0, 0, SHIFT, RELEASE])
                if not full_shape and code == 0x20 and mask == SHIFT:
                    mask = 0      # Shift+space toggles full_shape in the stock key binder: outside C03's domain
                ops.append(key(code, mask))
        elif r < 0.80:
            ops += [rng.choice(["sel %d" % rng.randrange(0, 12), "selp %d" % rng.randrange(0, 5), "hl %d" % rng.randrange(0, 9)])]
        elif r < 0.86:
            ops.append(key(XK[rng.choice(["space", "BackSpace", "Return", "Escape", "Left", "Right", "Home", "End", "Down", "Next"])]))
        elif r < 0.90:
            ops.append("opt ascii_mode %d" % rng.randrange(0, 2))
        elif r < 0.95:
            ops += gen_kb_history(rng, 2, full_shape=full_shape and not stock)
        else:
            ops += [o for o in gen_api_history(rng, 3, stock=stock) if full_shape or not o.startswith("opt full_shape")]
    return ops[:length]


def gen_back_syllable_history(rng, stock):
    """round 4: multi-character pops (Editor::BackToPreviousSyllable = Control+BackSpace, Shift+BackSpace through the fallback)
    with the caret moved left of the end first - on phrases with syllable spans (stock) and on the synthetic schemas"""
    words = ["nihao", "nihaoa", "zhongguo", "women", "shijie", "nihaoshijie", "womende", "xiexie", "hao"] if stock else \
            ["abcde", "hello", "xyzzy", "aaaaaa", "uvw"]
    ops = []
    for _ in range(rng.randrange(1, 4)):
        w = rng.choice(words) + rng.choice(["", "", "a", "o", "n"])
        ops += [key(ord(c)) for c in w]
        for _ in range(rng.choice([0, 1, 1, 2, 3, 5])):
            ops.append(key(XK[rng.choice(["Left", "Left", "KP_Left"])], rng.choice([0, 0, 0, CTRL])))
        for _ in range(rng.choice([1, 1, 2, 3])):
            ops.append(key(XK["BackSpace"], rng.choice([CTRL, CTRL, SHIFT])))
            if rng.random() < 0.5:
                ops.append(rng.choice(["getctx", "getinput", "getcaret"]))
        ops.append(rng.choice([key(XK["Escape"]), key(XK["space"]), "clear", "commit", key(ord("a"))]))
    return ops
