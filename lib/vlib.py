"""Shared machinery for /verif/bin/check.

Everything here is plumbing: building the Coq project, extracting and building
the OCaml model runners, building librime (or single translation units) from
/repo's *current working tree*, reporting violations / known findings and
writing evidence files.  No model logic lives here.
"""
import fcntl
import hashlib
import json
import os
import re
import shutil
import subprocess
import sys
import time

VERIF = os.path.dirname(os.path.dirname(os.path.abspath(__file__)))
REPO = os.environ.get("VERIF_REPO", "/repo")
COQ = os.path.join(VERIF, "coq")
CACHE = os.environ.get("VERIF_CACHE", "/var/tmp/rime-verif")
WORK = os.path.join(VERIF, "_work")
if os.path.realpath(REPO) != "/repo":
    # a run against another tree (mutation drill, seeded change) gets its own harness/driver build area, so that it
    # can never hand a binary linked against the other tree to a concurrent run on /repo (or vice versa)
    WORK = os.path.join(VERIF, "_work", "other-tree", os.path.basename(os.path.realpath(REPO)))
NPROC = os.cpu_count() or 4

FORBIDDEN = re.compile(
    r"\b(Admitted|admit|Axiom|Axioms|Parameter|Parameters|Conjecture|Conjectures|"
    r"Admit\s+Obligations|bypass_check|native_compute)\b|Unset\s+Guard\s+Checking|"
    r"Unset\s+Positivity\s+Checking|Unset\s+Universe\s+Checking|type-in-type|impredicative-set"
)


def sh(cmd, timeout=None, cwd=None, env=None, stdin=None, check=False):
    """Run a command, return (rc, stdout+stderr)."""
    e = dict(os.environ)
    if env:
        e.update(env)
    try:
        p = subprocess.run(
            cmd, shell=isinstance(cmd, str), cwd=cwd, env=e, input=stdin,
            stdout=subprocess.PIPE, stderr=subprocess.STDOUT, timeout=timeout,
            text=True, errors="replace")
        rc, out = p.returncode, p.stdout
    except subprocess.TimeoutExpired as ex:
        o = ex.stdout
        if isinstance(o, bytes):
            o = o.decode("utf-8", "replace")
        rc, out = 124, (o or "") + "\n[timeout after %ss]" % timeout
    if check and rc != 0:
        raise RuntimeError("command failed (%d): %s\n%s" % (rc, cmd, out[-4000:]))
    return rc, out


def sh2(cmd, timeout=None, cwd=None, env=None, stdin=None):
    """Run a command, return (rc, stdout, stderr) separately (bytes-safe text)."""
    e = dict(os.environ)
    if env:
        e.update(env)
    try:
        p = subprocess.run(
            cmd, shell=isinstance(cmd, str), cwd=cwd, env=e, input=stdin,
            stdout=subprocess.PIPE, stderr=subprocess.PIPE, timeout=timeout,
            text=True, errors="replace")
        return p.returncode, p.stdout, p.stderr
    except subprocess.TimeoutExpired as ex:
        def d(o):
            return o.decode("utf-8", "replace") if isinstance(o, bytes) else (o or "")
        return 124, d(ex.stdout), d(ex.stderr) + "\n[timeout after %ss]" % timeout


class Lock:
    def __init__(self, path):
        os.makedirs(os.path.dirname(path), exist_ok=True)
        self.path = path

    def __enter__(self):
        self.f = open(self.path, "w")
        fcntl.flock(self.f, fcntl.LOCK_EX)
        return self

    def __exit__(self, *a):
        fcntl.flock(self.f, fcntl.LOCK_UN)
        self.f.close()


def write_if_changed(path, content):
    os.makedirs(os.path.dirname(path), exist_ok=True)
    try:
        with open(path) as f:
            if f.read() == content:
                return False
    except FileNotFoundError:
        pass
    tmp = path + ".tmp%d" % os.getpid()
    with open(tmp, "w") as f:
        f.write(content)
    os.replace(tmp, path)
    return True


# ---------------------------------------------------------------------------
# Coq project
# ---------------------------------------------------------------------------

def coq_sources():
    out = []
    for root, dirs, files in os.walk(COQ):
        dirs.sort()
        for f in sorted(files):
            if f.endswith(".v") and not f.startswith("."):
                out.append(os.path.relpath(os.path.join(root, f), COQ))
    return out


def forbidden_scan(files=None):
    """Return list of (file, lineno, text) for forbidden keywords outside comments."""
    hits = []
    for rel in (files or coq_sources()):
        p = os.path.join(COQ, rel)
        try:
            src = open(p, errors="replace").read()
        except FileNotFoundError:
            continue
        # strip comments (nested) and string literals crudely
        res, depth, i, n = [], 0, 0, len(src)
        instr = False
        while i < n:
            if not instr and src.startswith("(*", i):
                depth += 1
                i += 2
                continue
            if not instr and depth and src.startswith("*)", i):
                depth -= 1
                i += 2
                continue
            c = src[i]
            if depth == 0:
                if c == '"':
                    instr = not instr
                    res.append(" ")
                elif instr:
                    res.append("\n" if c == "\n" else " ")
                else:
                    res.append(c)
            else:
                res.append("\n" if c == "\n" else " ")
            i += 1
        clean = "".join(res)
        for ln, line in enumerate(clean.split("\n"), 1):
            m = FORBIDDEN.search(line)
            if m:
                hits.append((rel, ln, line.strip()))
            if re.search(r"^\s*(Variable|Variables|Hypothesis|Hypotheses|Context)\b", line):
                # must be inside a Section: checked by coqc itself being fine
                # with it, so verify a Section is open at this point
                before = "\n".join(clean.split("\n")[:ln])
                opens = len(re.findall(r"^\s*Section\s+\w+", before, re.M))
                closes = len(re.findall(r"^\s*End\s+\w+", before, re.M))
                mods = len(re.findall(r"^\s*Module\s+(Type\s+)?\w+", before, re.M))
                if opens - max(0, closes - mods) <= 0:
                    hits.append((rel, ln, "Variable/Hypothesis outside Section: " + line.strip()))
    return hits


def coq_dep_cone(target_v):
    """Files (relative .v paths) that `target_v` transitively depends on, from coq_makefile's .Makefile.d."""
    deps = {}
    try:
        txt = open(os.path.join(COQ, ".Makefile.d")).read().replace("\\\n", " ")
    except FileNotFoundError:
        return None
    for line in txt.split("\n"):
        if ":" not in line:
            continue
        lhs, rhs = line.split(":", 1)
        outs = [x for x in lhs.split() if x.endswith(".vo")]
        ins = [x[:-1] for x in rhs.split() if x.endswith(".vo") and not x.startswith("/")]
        for o in outs:
            deps.setdefault(o[:-1], set()).update(ins)
    seen, todo = set(), [target_v]
    while todo:
        f = todo.pop()
        if f in seen:
            continue
        seen.add(f)
        todo += list(deps.get(f, ()))
    return sorted(seen)


GEN_OF = {"ApiHandles.v": "api_handles", "BuildOrder.v": "build_order", "CopySites.v": "copy_sites", "EngFacts.v": "eng_facts",
          "KeyTable.v": "key_table", "Keymaps.v": "keymaps", "LockScopes.v": "lock_scopes", "MenuConsts.v": "menu_consts",
          "SessionApi.v": "session_api", "Layout.v": "table_layout", "Inits.v": "udb_inits"}


def ensure_generated():
    """A generated file that is missing (a fresh checkout in which bin/setup has not run) is produced by its translator from
    the current source; files that exist are left to the checks that own them (each check re-runs its own translators)."""
    import importlib
    missing = [f for f in GEN_OF if not os.path.exists(os.path.join(COQ, "Gen", f))]
    if not missing:
        return
    gdir = os.path.join(VERIF, "gen")
    if gdir not in sys.path:
        sys.path.insert(0, gdir)
    os.makedirs(os.path.join(COQ, "Gen"), exist_ok=True)
    for f in missing:
        importlib.import_module(GEN_OF[f]).generate()


def regenerate_cone(cone):
    """Re-run the translators of the Gen/*.v files in `cone`; True when a generated file changed."""
    import hashlib
    import importlib
    gdir = os.path.join(VERIF, "gen")
    if gdir not in sys.path:
        sys.path.insert(0, gdir)
    changed = False
    for f in cone:
        base = os.path.basename(f)
        if not f.startswith("Gen/") or base not in GEN_OF:
            continue
        path = os.path.join(COQ, "Gen", base)
        before = hashlib.sha1(open(path, "rb").read()).hexdigest() if os.path.exists(path) else None
        importlib.import_module(GEN_OF[base]).generate()
        after = hashlib.sha1(open(path, "rb").read()).hexdigest() if os.path.exists(path) else None
        changed = changed or before != after
    return changed


def coq_prepare():
    """(Re)generate _CoqProject and Makefile when the file set changed."""
    ensure_generated()
    srcs = coq_sources()
    proj = "-Q . RimeV\n-arg -w -arg -notation-overridden,-deprecated-hint-without-locality,-deprecated-instance-without-locality\n" + "\n".join(srcs) + "\n"
    changed = write_if_changed(os.path.join(COQ, "_CoqProject"), proj)
    if changed or not os.path.exists(os.path.join(COQ, "Makefile")):
        sh("coq_makefile -f _CoqProject -o Makefile", cwd=COQ, check=True, timeout=120)


def coq_make(targets, timeout=1500):
    """make -k the given .vo targets (full .vo build).  Returns (ok, log)."""
    with Lock(os.path.join(COQ, ".make.lock")):
        coq_prepare()
        t = " ".join(targets)
        rc, out = sh("timeout %d make -k -j%d %s" % (timeout, NPROC, t), cwd=COQ, timeout=timeout + 30)
    return rc == 0, out


def coq_failed_files(log):
    fails = []
    for m in re.finditer(r'File "\./([^"]+)", line (\d+), characters [\d-]+:\s*\n\s*Error', log):
        fails.append((m.group(1), int(m.group(2))))
    for m in re.finditer(r"make[^\n]*\*\*\* \[[^\]]*?([\w/]+\.vo)\] Error", log):
        f = m.group(1)[:-1]
        if not any(x[0] == f for x in fails):
            fails.append((f, 0))
    return fails


def coq_check_properties(pid, timeout=900):
    """Compile Properties_<pid>.v directly (always), capturing Print Assumptions.

    Returns dict(ok, theorems=[names], assumptions={thm: [axioms]}, log).
    """
    rel = "Properties_%s.v" % pid
    src = open(os.path.join(COQ, rel)).read()
    thms = re.findall(r"^\s*(?:Theorem|Lemma|Corollary)\s+(\w+)", src, re.M)
    with Lock(os.path.join(COQ, ".make.lock")):
        rc, out = sh("timeout %d coqc -q -Q . RimeV -w -notation-overridden %s" % (timeout, rel), cwd=COQ, timeout=timeout + 30)
    assumptions = {}
    # Output blocks: either "Closed under the global context" or "Axioms:\n name : type ..."
    blocks = re.split(r"(?m)^(?=Closed under the global context|Axioms:)", out)
    printed = re.findall(r"^\s*Print Assumptions\s+(\w+)", src, re.M)
    blocks = [b for b in blocks if b.startswith("Closed under") or b.startswith("Axioms:")]
    for name, b in zip(printed, blocks):
        if b.startswith("Closed"):
            assumptions[name] = []
        else:
            ax = [a for a in re.findall(r"^([\w.']+)\s*:", b, re.M) if a != "Axioms"]
            assumptions[name] = ax
    return dict(ok=(rc == 0), theorems=thms, printed=printed, assumptions=assumptions, log=out)


# ---------------------------------------------------------------------------
# OCaml extraction
# ---------------------------------------------------------------------------

def ocaml_build(name, extract_v, driver_ml, timeout=600):
    """Extract with coq/<extract_v> (run in _work/ocaml/<name>) and link with driver.

    extract_v must contain `Extraction "<name>_model.ml" ...` with a relative
    file name.  Returns path of the executable.
    """
    d = os.path.join(WORK, "ocaml", name)
    os.makedirs(d, exist_ok=True)
    with Lock(os.path.join(d, ".lock")):
        stamp = os.path.join(d, ".stamp")
        h = hashlib.sha256()
        for p in [os.path.join(COQ, extract_v), driver_ml, os.path.join(VERIF, "ocaml", "common", "glue.ml"),
                  os.path.join(VERIF, "ocaml", "common", "glue_byte.ml")]:
            h.update(open(p, "rb").read())
        # depend on all .vo mtimes cheaply: hash of (name, size, mtime) of .vo under coq
        for rel in coq_sources():
            vo = os.path.join(COQ, rel + "o")
            if os.path.exists(vo):
                st = os.stat(vo)
                h.update(("%s:%d:%d" % (rel, st.st_size, st.st_mtime_ns)).encode())
        key = h.hexdigest()
        exe = os.path.join(d, name)
        if os.path.exists(exe) and os.path.exists(stamp) and open(stamp).read() == key:
            return exe
        for f in os.listdir(d):
            if f.endswith((".ml", ".mli", ".cmi", ".cmx", ".o", ".cmo")):
                os.remove(os.path.join(d, f))
        sh("timeout %d coqc -q -Q %s RimeV -w -extraction %s" % (timeout, COQ, os.path.join(COQ, extract_v)),
           cwd=d, check=True, timeout=timeout + 30)
        # coqc writes the .vo/.glob next to the source; fine.
        mls = sorted(f for f in os.listdir(d) if f.endswith("_model.ml"))
        mli = open(os.path.join(d, mls[0] + "i")).read()
        glue = ""
        for blk in re.split(r"(?m)^(?=\(\*@needs )", open(os.path.join(VERIF, "ocaml", "common", "glue.ml")).read()):
            m = re.match(r"\(\*@needs (\S+?)\*\)", blk)
            if m is None or m.group(1) == "-" or re.search(r"(?m)^(type|and) %s\b" % m.group(1), mli):
                glue += blk
        drv = open(driver_ml).read()
        if "byte_of_N" in open(os.path.join(d, mls[0])).read():
            glue += open(os.path.join(VERIF, "ocaml", "common", "glue_byte.ml")).read()
        with open(os.path.join(d, "driver.ml"), "w") as f:
            f.write("open %s\n" % (mls[0][:-3].capitalize()) + glue + drv)
        files = []
        for m in mls:
            files += [m + "i", m]
        sh("ocamlfind ocamlopt -O3 -w -a -package str -linkpkg %s driver.ml -o %s 2>&1 || "
           "ocamlfind ocamlopt -w -a -package str -linkpkg %s driver.ml -o %s" %
           (" ".join(files), name, " ".join(files), name), cwd=d, check=True, timeout=timeout)
        open(stamp, "w").write(key)
        return exe


# ---------------------------------------------------------------------------
# C++ builds from /repo's working tree
# ---------------------------------------------------------------------------

SAN_FLAGS = "-O1 -g -fsanitize=address,undefined -fno-sanitize-recover=undefined -fno-omit-frame-pointer"
HOOK_DEFINE = "-DRIME_VERIF_HOOKS"


def librime_build(flavour="asan", timeout=1500):
    """Configure+build librime from /repo's working tree.  Returns build dir.

    flavours: asan (Debug, ASan+UBSan, hooks on), tsan (RelWithDebInfo, TSan, hooks on),
              plain (RelWithDebInfo, hooks on, no sanitizer).
    ninja rebuilds exactly what changed in the working tree.
    """
    b = os.path.join(CACHE, flavour)
    os.makedirs(b, exist_ok=True)
    if flavour == "asan":
        cxx, ld, bt = SAN_FLAGS + " " + HOOK_DEFINE, "-fsanitize=address,undefined", "Debug"
    elif flavour == "tsan":
        cxx, ld, bt = "-O1 -g -fsanitize=thread -fno-omit-frame-pointer " + HOOK_DEFINE, "-fsanitize=thread", "RelWithDebInfo"
    elif flavour == "plain":
        cxx, ld, bt = "-O1 -g " + HOOK_DEFINE, "", "RelWithDebInfo"
    else:
        raise ValueError(flavour)
    with Lock(os.path.join(b, ".verif.lock")):
        if not os.path.exists(os.path.join(b, "build.ninja")):
            sh(["cmake", "-G", "Ninja", "-S", REPO, "-B", b, "-DCMAKE_BUILD_TYPE=" + bt,
                "-DBUILD_TEST=OFF", "-DBUILD_SAMPLE=OFF",
                "-DCMAKE_CXX_FLAGS=" + cxx, "-DCMAKE_SHARED_LINKER_FLAGS=" + ld,
                "-DCMAKE_EXE_LINKER_FLAGS=" + ld], check=True, timeout=300)
        rc, out = sh("timeout %d ninja -C %s -j%d rime rime_deployer" % (timeout, b, NPROC), timeout=timeout + 30)
        if rc != 0:
            raise BuildError("librime build (%s) failed:\n%s" % (flavour, out[-6000:]))
    return b


class BuildError(Exception):
    pass


def cxx_build(out, sources, flags="", libs="", timeout=600, san=True):
    """Compile a small harness (sources may include files under /repo/src)."""
    os.makedirs(os.path.dirname(out), exist_ok=True)
    inc = "-I%s/src -I%s/include -I%s/_gen_include" % (REPO, REPO, WORK)
    gen_build_config()
    cmd = "g++ -std=c++17 %s %s %s %s -o %s %s" % (
        SAN_FLAGS if san else "-O1 -g", HOOK_DEFINE, inc + " " + flags, " ".join(sources), out, libs)
    rc, o = sh("timeout %d %s" % (timeout, cmd), timeout=timeout + 30)
    if rc != 0:
        raise BuildError("harness build failed: %s\n%s" % (cmd, o[-6000:]))
    return out


def gen_build_config():
    """rime/build_config.h is produced by cmake; provide one for stand-alone TU builds."""
    p = os.path.join(WORK, "_gen_include", "rime", "build_config.h")
    tmpl = os.path.join(REPO, "src", "rime", "build_config.h.in")
    txt = open(tmpl).read()
    txt = re.sub(r"#cmakedefine\s+(\w+)[^\n]*", r"/* #undef \1 */", txt)
    txt = txt.replace("/* #undef RIME_BUILD_SHARED_LIBS */", "#define RIME_BUILD_SHARED_LIBS")
    txt = txt.replace("/* #undef RIME_ENABLE_LOGGING */", "#define RIME_ENABLE_LOGGING")
    write_if_changed(p, txt)


# ---------------------------------------------------------------------------
# Check context: evidence, violations, known findings
# ---------------------------------------------------------------------------

class Ctx:
    def __init__(self, pid, tier, seed, level="proof"):
        self.pid, self.tier, self.seed, self.level = pid, tier, seed, level
        self.t0 = time.time()
        self.coverage = {}
        self.assumptions = []
        self.violations = []   # (key, replay_path, found_input, what)
        self.known_hits = []
        self.notes = []
        self.run_dir = os.path.join(CACHE, "run.%d" % os.getpid())
        self._known = None
        os.makedirs(os.path.join(VERIF, "replays"), exist_ok=True)
        for f in os.listdir(os.path.join(VERIF, "replays")):   # replays of an earlier run of this check/tier are stale
            if f.startswith("%s-%s-" % (pid, tier)):
                try:
                    os.remove(os.path.join(VERIF, "replays", f))
                except OSError:
                    pass

    # -- scratch
    def scratch(self, name=""):
        d = os.path.join(self.run_dir, name)
        os.makedirs(d, exist_ok=True)
        return d

    def cleanup(self):
        shutil.rmtree(self.run_dir, ignore_errors=True)

    # -- known findings
    def known(self):
        if self._known is None:
            p = os.path.join(VERIF, "known_findings.json")
            try:
                self._known = json.load(open(p)).get("findings", [])
            except FileNotFoundError:
                self._known = []
        return self._known

    def violation(self, key, what, replay, found_input=True):
        """Report one violation.  key identifies the failing input/site (matched
        against known_findings.json entries of status 'known')."""
        for k in self.known():
            if k.get("property") == self.pid and k.get("status") == "known" and re.fullmatch(k["match"], key):
                if key not in [x[0] for x in self.known_hits]:
                    self.known_hits.append((key, k.get("what", what)))
                    print("KNOWN-FINDING: property=%s %s [%s]" % (self.pid, k.get("what", what), key), flush=True)
                return False
        n = len(self.violations)
        path = os.path.join(VERIF, "replays", "%s-%s-%d.json" % (self.pid, self.tier, n))
        obj = dict(property=self.pid, key=key, what=what, found_failing_input=found_input, replay=replay,
                   seed=self.seed, tier=self.tier)
        with open(path, "w") as f:
            json.dump(obj, f, indent=1, default=str)
        self.violations.append((key, path, found_input, what))
        return True

    def finish(self):
        wall = time.time() - self.t0
        if self.coverage.get("discharged") == 0:
            # schema wants discharged >= 1 for the proof keys; a run whose proofs broke reports it separately
            self.coverage["obligations_broken"] = self.coverage.pop("obligations", None)
            self.coverage.pop("discharged", None)
            self.coverage["proof_status"] = "BROKEN: no obligation of this property was discharged in this run"
        ev = dict(property_id=self.pid, tier=self.tier, seed=self.seed, level=self.level,
                  coverage=self.coverage, assumptions=self.assumptions, wall_s=round(wall, 2),
                  violations=len(self.violations))
        if self.known_hits:
            ev["known_findings_hit"] = [k for k, _ in self.known_hits]
        if self.notes:
            ev["notes"] = self.notes
        # evidence committed under /verif/evidence must come from /repo itself: a run against another tree
        # (VERIF_REPO=<scratch worktree>, used for mutation drills and seeded changes) writes elsewhere
        edir = os.path.join(VERIF, "evidence") if os.path.realpath(REPO) == "/repo" else os.path.join(VERIF, "_work", "evidence-other-tree")
        p = os.path.join(edir, "%s.json" % self.pid)
        os.makedirs(os.path.dirname(p), exist_ok=True)
        with open(p, "w") as f:
            json.dump(ev, f, indent=1, default=str)
            f.write("\n")
        self.cleanup()
        if self.violations:
            # one line per property: prefer a violation with a failing input
            self.violations.sort(key=lambda v: (not v[2],))
            key, path, found, what = self.violations[0]
            print("VIOLATION property=%s replay=%s%s" % (self.pid, path, "" if found else " no-failing-input-found"), flush=True)
            for v in self.violations[1:6]:
                print("  also: %s (%s)" % (v[3], v[1]), flush=True)
            return 1
        print("OK property=%s tier=%s wall=%.1fs" % (self.pid, self.tier, wall), flush=True)
        return 0


def proof_stage(ctx, extra_targets=(), gen=None):
    """Common proof stage: forbidden scan, regenerate Gen files, build, compile
    Properties_<pid>.v and record obligations/assumptions.

    Returns dict(ok, failed=[...], log, props=...)."""
    pid = ctx.pid
    if gen:
        gen()
    targets = ["Properties_%s.vo" % pid] + list(extra_targets)
    ok, log = coq_make(targets)
    # every generated file in this property's dependency cone is re-translated from the CURRENT source on every run (the check
    # itself re-runs the translators it reports on; this covers the rest of the cone, e.g. the key maps under Svc/EngInstance)
    if regenerate_cone(coq_dep_cone("Properties_%s.v" % pid) or []):
        ok, log = coq_make(targets)
    # forbidden constructs are judged inside this property's dependency cone (other properties' files are
    # judged by their own checks; bin/validate scans the whole development)
    cone = coq_dep_cone("Properties_%s.v" % pid)
    hits = forbidden_scan(cone)
    res = dict(ok=True, failed=[], forbidden=hits)
    if hits:
        res["ok"] = False
    ctx.coverage["dependency_cone"] = cone
    res["make_ok"] = ok
    res["log"] = log
    if not ok:
        res["ok"] = False
        res["failed"] = coq_failed_files(log)
    props = None
    if ok:
        props = coq_check_properties(pid)
        if not props["ok"]:
            res["ok"] = False
            res["failed"].append(("Properties_%s.v" % pid, 0))
    res["props"] = props
    nthm = len(props["theorems"]) if props else len(re.findall(
        r"^\s*(?:Theorem|Lemma|Corollary)\s+(\w+)", open(os.path.join(COQ, "Properties_%s.v" % pid)).read(), re.M))
    ctx.coverage["obligations"] = nthm
    ctx.coverage["discharged"] = nthm if res["ok"] else 0
    ctx.coverage["checker_cmd"] = "make -k -j%d Properties_%s.vo (coq_makefile, full .vo build) ; coqc Properties_%s.v (Print Assumptions)" % (NPROC, pid, pid)
    if props:
        ctx.coverage["theorems"] = props["theorems"]
        ctx.coverage["print_assumptions"] = props["assumptions"]
        axs = sorted({a for l in props["assumptions"].values() for a in l})
        ctx.coverage["axioms_used"] = axs
    return res


# ---------------------------------------------------------------------------
# Deployed stock workspace (luna_pinyin + cangjie5 from /repo/data/minimal), cached
# ---------------------------------------------------------------------------

def _hash_files(paths):
    h = hashlib.sha256()
    for p in sorted(paths):
        h.update(p.encode())
        with open(p, "rb") as f:
            while True:
                b = f.read(1 << 20)
                if not b:
                    break
                h.update(b)
    return h.hexdigest()


def stock_workspace(flavour="asan", extra_shared=None, name="stock"):
    """Return a TEMPLATE directory holding `shared/` (copy of /repo/data/minimal plus
    the files of extra_shared: {filename: content}) and `user/` (with build/ deployed
    by the rime_deployer of the given librime flavour).  The template is cached under
    CACHE/ws/ keyed by the content hash of librime.so + rime_deployer + all source data
    files, so it is redeployed whenever /repo's code or data changed.  Copy it
    (`copy_workspace`) before use; never run a session inside the template.
    Deploying under ASan takes ~40 s; a cache hit costs < 1 s."""
    b = librime_build(flavour)
    data = os.path.join(REPO, "data", "minimal")
    files = [os.path.join(data, f) for f in os.listdir(data)]
    key = _hash_files(files + [os.path.realpath(os.path.join(b, "lib", "librime.so")), os.path.join(b, "bin", "rime_deployer")])
    if extra_shared:
        key = hashlib.sha256((key + json.dumps(extra_shared, sort_keys=True)).encode()).hexdigest()
    root = os.path.join(CACHE, "ws")
    os.makedirs(root, exist_ok=True)
    d = os.path.join(root, "%s-%s-%s" % (name, flavour, key[:20]))
    with Lock(os.path.join(root, ".%s.lock" % name)):
        if os.path.exists(os.path.join(d, ".ok")):
            return d
        shutil.rmtree(d, ignore_errors=True)
        # drop older templates of the same name/flavour
        for old in os.listdir(root):
            if old.startswith("%s-%s-" % (name, flavour)):
                shutil.rmtree(os.path.join(root, old), ignore_errors=True)
        os.makedirs(os.path.join(d, "user"))
        shutil.copytree(data, os.path.join(d, "shared"))
        for fn, content in (extra_shared or {}).items():
            with open(os.path.join(d, "shared", fn), "w") as f:
                f.write(content)
        rc, out = sh([os.path.join(b, "bin", "rime_deployer"), "--build", os.path.join(d, "user"),
                      os.path.join(d, "shared"), os.path.join(d, "user", "build")],
                     env={"ASAN_OPTIONS": "detect_leaks=0", "TSAN_OPTIONS": "report_bugs=0"}, timeout=900)
        if rc != 0:
            raise BuildError("deploying the stock workspace failed (rc=%d):\n%s" % (rc, out[-4000:]))
        open(os.path.join(d, ".ok"), "w").write(key)
    return d


def copy_workspace(template, dest):
    """Private copy of a workspace template (shared/ + user/) for one run/history."""
    shutil.rmtree(dest, ignore_errors=True)
    shutil.copytree(template, dest)
    return dest
