(* C04 model runner (conversion glue only, no model logic).
   stdin, one case per line (whitespace separated tokens):
     <page_size> <nt> <spec>*nt <filters: string over u,s,x,a,b (a/b = simplifier over dict_a/dict_b) or -> <nops> <op>*nops
   cand  := cp.cp...:comment:type:start:end:quality
   spec  := U <cand> | U0 | E <cand> | F <n> <cand>*n | N <n> <spec>*n | K <spec> | D <spec>
          | P <spec> | S <spec> | X <spec>
   op    := p n | c ps pno | g i | x | h i | o i | v 0/1 | i from n | NP | PP | NC | PC | HM
   stdout: one line per case: observations separated by " ; ", each
     <ret> <flag> <hl> <item>*   with item = idx=cp.cp:comment[:type:quality:uniq]
   followed by " ; L <texts of full list, fresh menu> ; ND <0/1>" *)
let z_of_int (i : int) : z = if i = 0 then Z0 else if i > 0 then Zpos (pos_of_int i) else Zneg (pos_of_int (-i))
let int_of_z (x : z) : int = match x with Z0 -> 0 | Zpos p -> int_of_pos p | Zneg p -> - (int_of_pos p)

let parse_cand (s : Stdlib.String.t) : cand =
  match String.split_on_char ':' s with
  | [t; cm; ty; st; en; q] ->
    let cps = if t = "" then [] else List.map (fun x -> n_of_int (int_of_string x)) (String.split_on_char '.' t) in
    { c_text = cps; c_comment = n_of_int (int_of_string cm); c_type = nat_of_int (int_of_string ty);
      c_start = nat_of_int (int_of_string st); c_end = nat_of_int (int_of_string en);
      c_quality = z_of_int (int_of_string q); c_uniq = O }
  | _ -> failwith ("bad cand " ^ s)

let toks = ref [||]
let pos = ref 0
let tok () = let t = !toks.(!pos) in incr pos; t
let int () = int_of_string (tok ())
let rec many n f = if n <= 0 then [] else let x = f () in x :: many (n - 1) f

let rec parse_spec () : spec =
  match tok () with
  | "U" -> SpUnique (Some (parse_cand (tok ())))
  | "U0" -> SpUnique None
  | "E" -> SpEcho (parse_cand (tok ()))
  | "F" -> let n = int () in SpFifo (many n (fun () -> parse_cand (tok ())))
  | "N" -> let n = int () in SpUnion (many n parse_spec)
  | "K" -> SpCache (parse_spec ())
  | "D" -> SpDistinct (parse_spec ())
  | "P" -> SpPrefetch (parse_spec ())
  | "S" -> SpSingle (parse_spec ())
  | "X" -> SpCharset (parse_spec ())
  | t -> failwith ("bad spec token " ^ t)

let parse_op () : op * bool =
  match tok () with
  | "p" -> let n = int () in (OPrepare (nat_of_int n), true)
  | "c" -> let ps = int () in let pno = int () in (OCreatePage (nat_of_int ps, nat_of_int pno), true)
  | "g" -> let i = int () in (OGetAt (nat_of_int i), true)
  | "x" -> (OGetContext, false)
  | "h" -> let i = int () in (OHighlight (nat_of_int i), false)
  | "o" -> let i = int () in (OHighlightOnPage (nat_of_int i), false)
  | "v" -> let b = int () in (OChangePage (b <> 0), false)
  | "i" -> let f = int () in let n = int () in (OIterate (nat_of_int f, nat_of_int n), false)
  | "NP" -> (ONextPage, false) | "PP" -> (OPrevPage, false) | "NC" -> (ONextCand, false)
  | "PC" -> (OPrevCand, false) | "HM" -> (OHome, false)
  | t -> failwith ("bad op token " ^ t)

let text_str (t : text) = String.concat "." (List.map (fun x -> string_of_int (int_of_n x)) t)
let item_str full ((i, c) : nat * cand) =
  let base = Printf.sprintf "%d=%s:%d" (int_of_nat i) (text_str c.c_text) (int_of_n c.c_comment) in
  if full then Printf.sprintf "%s:%d:%d:%d" base (int_of_nat c.c_type) (int_of_z c.c_quality) (int_of_nat c.c_uniq) else base

let () =
  try
    while true do
      let line = input_line stdin in
      toks := Array.of_list (split_ws line);
      pos := 0;
      if line = "DICTS" then begin
        (* the two simplifier dictionaries, as OpenCC text dictionary lines: name key value value ... *)
        List.iter (fun (nm, d) -> List.iter (fun (k, vs) ->
            Printf.printf "%s %d %s\n" nm (int_of_n k) (String.concat " " (List.map (fun v -> string_of_int (int_of_n v)) vs))) d)
          [("a", dict_a); ("b", dict_b)];
        print_endline "END"
      end else
      (try
        let ps = int () in
        let nt = int () in
        let specs = many nt parse_spec in
        let fs = List.filter_map (fun ch -> match ch with 'u' -> Some FUniquifier | 's' -> Some FSingleChar
                                                      | 'x' -> Some FCharset | 'a' -> Some (FSimplifier (dict_conv dict_a))
                                                      | 'b' -> Some (FSimplifier (dict_conv dict_b)) | _ -> None)
            (List.of_seq (String.to_seq (tok ()))) in
        let nops = int () in
        let ops = many nops parse_op in
        let obs = run_case (nat_of_int ps) specs fs (List.map fst ops) in
        let strs = List.map2 (fun ob (_, full) ->
            String.concat " " ([string_of_int (int_of_nat ob.o_ret); (if ob.o_flag then "1" else "0");
                                string_of_int (int_of_nat ob.o_hl)] @ List.map (item_str full) ob.o_items)) obs ops in
        let fl = full_list (menu_of specs fs) in
        let tx = List.map (fun c -> c.c_text) fl in
        print_endline (String.concat " ; " (strs @ ["L " ^ String.concat " " (List.map text_str tx);
                                                     "ND " ^ (if nodup_texts tx then "1" else "0")]))
      with Failure m -> print_endline ("BADLINE " ^ m) | Invalid_argument m -> print_endline ("BADLINE " ^ m))
    done
  with End_of_file -> ()
