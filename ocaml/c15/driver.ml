(* C15 model runner (conversion glue only; the model is the extracted Dep/Sched.v
   instantiated with the table extracted from Gen/LockScopes.v).
   stdin, one request per line:
     E <k> <h0> <call> ...            all maximal macro schedules with <= k preemptions
        -> lines "S <schedule> | <observations>" then "END <n>"
     R <h0> <call> ... | <schedule>   run one schedule -> "<observations>" or "REFUSED@<i>"
     W                                the witness schedules -> "W <name> <h0> <calls> | <schedule>"
     T                                "T <table_shape_ok> <lk_sched lk_next lk_hasp lk_set lk_clear lk_ntest lk_ncall> <handover of the table> <handover_fact>"
                                      (handover: future = before the repair of the exit window, flag = running_ protocol, unrecognised)
   calls: SM:rrr SU:rrr (r: 1 ok, 0 fails, 2 throws) IM J C K<n> G<n> F<n> D<n> H1 H0 P<r> ; schedule: letters c / w;
   E also prints probe lines "B <prefix>C | <observations of the prefix>" (C = a client step the model refuses) *)
let c0 = cfg_of_table lock_scopes
let bools s = List.init (String.length s) (fun i -> match s.[i] with '1' -> OOk | '2' -> OThrow | _ -> OFail)
let call_of_string t =
  let n () = nat_of_int (int_of_string (String.sub t 1 (String.length t - 1))) in
  if String.length t > 3 && String.sub t 0 3 = "SM:" then CStartMaint (bools (String.sub t 3 (String.length t - 3)))
  else if String.length t > 3 && String.sub t 0 3 = "SU:" then CSyncUser (bools (String.sub t 3 (String.length t - 3)))
  else match t with
    | "IM" -> CIsMaint | "J" -> CJoin | "C" -> CCreate | "H1" -> CSetHandler true | "H0" -> CSetHandler false
    | _ -> (match t.[0] with
        | 'P' -> CPlan (List.hd (bools (String.sub t 1 1)))
        | 'K' -> CProcessKey (n ()) | 'G' -> CGetContext (n ()) | 'F' -> CFind (n ()) | 'D' -> CDestroy (n ())
        | _ -> failwith ("bad call " ^ t))
let string_of_bools l = String.concat "" (List.map (function OOk -> "1" | OFail -> "0" | OThrow -> "2") l)
let string_of_call = function
  | CStartMaint rs -> "SM:" ^ string_of_bools rs | CSyncUser rs -> "SU:" ^ string_of_bools rs
  | CIsMaint -> "IM" | CJoin -> "J" | CCreate -> "C"
  | CProcessKey n -> "K" ^ string_of_int (int_of_nat n) | CGetContext n -> "G" ^ string_of_int (int_of_nat n)
  | CFind n -> "F" ^ string_of_int (int_of_nat n) | CDestroy n -> "D" ^ string_of_int (int_of_nat n)
  | CSetHandler b -> if b then "H1" else "H0"
  | CPlan r -> "P" ^ string_of_bools [r]
let rname = function
  | RStartMaint -> "SM" | RSyncUser -> "SU" | RIsMaint -> "IM" | RJoin -> "J" | RCreate -> "C" | RKey -> "K"
  | RCtx -> "G" | RFind -> "F" | RDestroy -> "D" | RSetHandler -> "H" | RPlan -> "P"
let string_of_event = function
  | ERet (c, v) -> Some (Printf.sprintf "ret:%s:%d" (rname c) (int_of_nat v))
  | ENotify NStart -> Some "notify:start" | ENotify NSuccess -> Some "notify:success" | ENotify NFailure -> Some "notify:failure"
  | ESched t -> Some (Printf.sprintf "sched:%d" (int_of_nat t)) | EExec t -> Some (Printf.sprintf "exec:%d" (int_of_nat t))
  | EHEnter g -> Some (Printf.sprintf "hin:%d" (int_of_nat g)) | EHLeave -> Some "hout"
  | EAccept -> Some "accept" | ESpawn -> Some "spawn" | ECleanup -> Some "cleanup" | EDone -> Some "done"
  | EBadCall -> None   (* an empty std::function being called is not observable by itself; the rethrow at join is *)
  | EJoinThrow -> Some "jointhrow"
let obs s = String.concat " " (List.filter_map string_of_event (List.rev (log s)))
let string_of_sched l = String.concat "" (List.map (function Client -> "c" | Worker -> "w") l)
let sched_of_string s = List.init (String.length s) (fun i -> if s.[i] = 'c' then Client else Worker)
let rec run_sched s i = function
  | [] -> Ok s
  | t :: rest -> (match macro c0 s t with Some s' -> run_sched s' (i + 1) rest | None -> Error i)
let split_bar toks =
  let rec go acc = function
    | [] -> (List.rev acc, []) | "|" :: r -> (List.rev acc, r) | x :: r -> go (x :: acc) r in
  go [] toks
let b x = if x then 1 else 0
let () =
  try
    while true do
      let line = input_line stdin in
      (match split_ws line with
       | "E" :: k :: h0 :: calls ->
         let sc = List.map call_of_string calls in
         let s0 = init (h0 = "1") sc in
         let scheds = enum c0 (nat_of_int 400) (nat_of_int (int_of_string k)) Client s0 in
         List.iter (fun sch ->
             match run_sched s0 0 sch with
             | Ok s -> Printf.printf "S %s | %s\n" (string_of_sched sch) (obs s)
             | Error i -> Printf.printf "S %s | REFUSED@%d\n" (string_of_sched sch) i) scheds;
         (* probes: prefixes after which the model refuses the client's set_notification_handler call because
            the worker holds Service::mutex_ around the handler invocation; the harness tries the call anyway *)
         let seen = Hashtbl.create 16 in
         List.iter (fun sch ->
             let rec walk s pre = function
               | [] -> ()
               | t :: rest ->
                 (match s.cpcs, s.script, s.wpcs with
                  | CIdle, CSetHandler _ :: _, Some (WN (_, (N3 | N4))) when macro c0 s Client = None ->
                    let key = string_of_sched (List.rev pre) in
                    if not (Hashtbl.mem seen key) then begin
                      Hashtbl.add seen key ();
                      Printf.printf "B %sC | %s\n" key (obs s) end
                  | _ -> ());
                 (match macro c0 s t with Some s' -> walk s' (t :: pre) rest | None -> ()) in
             walk s0 [] sch) scheds;
         Printf.printf "END %d\n" (List.length scheds)
       | "R" :: h0 :: rest ->
         let (calls, sch) = split_bar rest in
         let s0 = init (h0 = "1") (List.map call_of_string calls) in
         (match run_sched s0 0 (sched_of_string (String.concat "" sch)) with
          | Ok s -> print_endline (obs s)
          | Error i -> Printf.printf "REFUSED@%d\n" i)
       | ["W"] ->
         let p name h0 sc sch = Printf.printf "W %s %d %s | %s\n" name h0
             (String.concat " " (List.map string_of_call sc)) (string_of_sched sch) in
         p "window_sync" 1 witness_window_script witness_window_sched;
         p "window_start_maintenance" 1 witness_window_sm_script witness_window_sched;
         (* the repaired hand-over: the same schedule continued to the end of the script, and tasks scheduled just
            before the worker's exit test (both are schedules of the model only when the table shows the flag protocol;
            on the old hand-over they are refused or end in the exit window, which the oracles then report) *)
         if nw c0 then begin
           p "window_closed" 1 witness_window_script witness_closed_sched;
           p "window_closed_start_maintenance" 1 witness_window_sm_script witness_closed_sched;
           p "window_seen" 1 witness_window_script witness_seen_sched end;
         p "badcall" 1 witness_badcall_script witness_badcall_sched;
         p "race" 1 witness_badcall_script witness_race_sched;
         print_endline "END"
       | ["T"] ->
         let hs = function HFuture -> "future" | HFlag -> "flag" | HUnrecognised -> "unrecognised" in
         Printf.printf "T %d %d %d %d %d %d %d %d %s %s\n" (b (table_shape_ok lock_scopes)) (b c0.lk_sched) (b c0.lk_next)
           (b c0.lk_hasp) (b c0.lk_set) (b c0.lk_clear) (b c0.lk_ntest) (b c0.lk_ncall)
           (hs (handover_of_table lock_scopes)) (hs handover_fact)
       | _ -> print_endline "BADLINE");
      flush stdout
    done
  with End_of_file -> ()
