(* C09 model runner (conversion glue only; the model logic is the extracted code).
   stdin, one case per line:
     <id> <syllables> <rules> <queries> <limits>
       syllables: hex,hex,...            (in the order handed to the implementation)
       rules:     _ | rule;rule;...      rule = <kind letter>|<hexkey>><hexresult>:<type>:<cred>|<hexkey>>~|...
                  (the sampled effect of Calculation::Apply on each string; ~ = not applied; - = empty string)
       queries:   _ | hex,hex,...        limits: int,int,...
   stdout: the canonical observation lines of the case (same format as harness/c09/c09.cc). *)
exception Unsampled of int * Stdlib.String.t
let int_of_z (x : z) : int = match x with Z0 -> 0 | Zpos p -> int_of_pos p | Zneg p -> - (int_of_pos p)
let z_of_int (i : int) : z = if i = 0 then Z0 else if i > 0 then Zpos (pos_of_int i) else Zneg (pos_of_int (-i))
let split c s = if s = "_" || s = "" then [] else String.split_on_char c s
let kind_of = function "X" -> Xlit | "T" -> Xform | "E" -> Erase | "D" -> Derive | "F" -> Fuzz | "A" -> Abbrev
  | k -> failwith ("bad kind " ^ k)
let letter = function Xlit -> "X" | Xform -> "T" | Erase -> "E" | Derive -> "D" | Fuzz -> "F" | Abbrev -> "A"
let parse_rule idx (r : Stdlib.String.t) : calc =
  match String.split_on_char '|' r with
  | [] -> failwith "empty rule"
  | k :: entries ->
    let tbl = Hashtbl.create 16 in
    List.iter (fun e ->
      if e <> "" then
      match String.split_on_char '>' e with
      | [key; "~"] -> Hashtbl.replace tbl key None
      | [key; res] ->
        (match String.split_on_char ':' res with
         | [s; ty; cr] ->
           Hashtbl.replace tbl key
             (Some { sstr = bytes_of_hex s;
                     sprops = { ptype = nat_of_int (int_of_string ty); pcred = z_of_int (int_of_string cr); ptips = [] } })
         | _ -> failwith "bad result")
      | _ -> failwith "bad entry") entries;
    { ckind = kind_of k;
      capply = (fun b -> let h = hex_of_bytes b in
                 match Hashtbl.find_opt tbl h with Some r -> r | None -> raise (Unsampled (idx, h))) }
let show_pairs l =
  if l = [] then "-" else
  String.concat "," (List.map (fun (v, n) -> Printf.sprintf "%d:%d" (int_of_nat v) (int_of_nat n)) l)
let () =
  try
    while true do
      let line = input_line stdin in
      match split_ws line with
      | [id; syls; rules; queries; limits] ->
        (try
          let syls = List.map bytes_of_hex (split ',' syls) in
          let merge_mode = String.length rules > 2 && String.sub rules 0 2 = "M:" in
          let calcs = if merge_mode then [] else List.mapi parse_rule (split ';' rules) in
          let queries = List.map bytes_of_hex (split ',' queries) in
          let limits = List.map int_of_string (split ',' limits) in
          let syllabary = syllabary_of syls in
          if not merge_mode then Printf.printf "%s FLAGS %s\n" id
            (if calcs = [] then "-" else String.concat "," (List.map (fun c ->
              Printf.sprintf "%s:%d%d" (letter c.ckind) (if kind_deletion c.ckind then 1 else 0)
                (if kind_addition c.ckind then 1 else 0)) calcs));
          let mkprops f o = { ptype = nat_of_int (int_of_string (List.nth f o));
                              pcred = z_of_int (int_of_string (List.nth f (o + 1)));
                              ptips = bytes_of_hex (List.nth f (o + 2)) } in
          let (applied, sc) =
            if merge_mode then
              (true, List.fold_left (fun sc op ->
                match String.split_on_char '|' op with
                | [k; sp; v] ->
                  merge (bytes_of_hex k) (mkprops (String.split_on_char ':' sp) 0)
                    (List.map (fun e -> let f = String.split_on_char ':' e in
                                { sstr = bytes_of_hex (List.hd f); sprops = mkprops f 1 }) (split ',' v)) sc
                | _ -> sc) [] (split ';' (String.sub rules 2 (String.length rules - 2))))
            else project calcs (init_script syllabary) in
          Printf.printf "%s SCRIPT %d %s\n" id (if applied then 1 else 0)
            (if sc = [] then "-" else String.concat ";" (List.map (fun (k, v) ->
              hex_of_bytes k ^ "=" ^ String.concat "," (List.map (fun x ->
                Printf.sprintf "%s:%d:%d:%s" (hex_of_bytes x.sstr) (int_of_nat x.sprops.ptype)
                  (int_of_z x.sprops.pcred) (hex_of_bytes x.sprops.ptips)) v)) sc));
          let p = build (fun c -> c) syllabary
                    (if merge_mode then (if sc = [] then None else Some sc) else compile_script syllabary calcs) in
          Printf.printf "%s PRISM null=%d n=%d nsyl=%d alpha=%s\n" id
            (match p.p_map with None -> 1 | Some _ -> 0)
            (List.length p.p_keys) (List.length syllabary) (hex_of_bytes p.p_alphabet);
          List.iter (fun q ->
            let g = get_value p q in
            let s = match g with
              | None -> "-"
              | Some v -> String.concat "," (List.map (fun d ->
                  Printf.sprintf "%d:%d:%d:%s" (int_of_nat d.d_syll) (int_of_nat d.d_type) (int_of_z d.d_cred)
                    (hex_of_bytes d.d_tips)) (query_spelling (fun c -> c) p v)) in
            let e = String.concat " " (List.map (fun l ->
              let (r, ok) = expand_search_fuel p q (nat_of_int l) in
              Printf.sprintf "E%d=%s%s" l (show_pairs r) (if ok then "" else "!FUEL")) limits) in
            Printf.printf "%s Q %s G=%s S=%s C=%s %s\n" id (hex_of_bytes q)
              (match g with None -> "-" | Some v -> string_of_int (int_of_nat v)) s
              (show_pairs (common_prefix_search p q)) e) queries
        with Unsampled (i, h) -> Printf.printf "%s UNSAMPLED rule=%d string=%s\n" id i h)
      | _ -> print_endline "BADLINE"
    done
  with End_of_file -> ()
