(* C06 model runner.  One case per line on stdin:
     <sort_original 0|1> <image size> <nfiles> { <text col> <code col> <weight col> <nlines> <line hex>* }*
     Q <n> <code: syllable hex joined by '.'>*  R <n> <text hex>*
   (column -1 = absent, "-" = empty string).  Output: the canonical observation lines of
   harness/c06/c06.cc, terminated by "end".  Conversion glue only - no model logic. *)
let hex_of_n (x : n) : string =
  (* exact, arbitrary size: little-endian bits -> hex *)
  match x with
  | N0 -> "0"
  | Npos p ->
    let bits = Buffer.create 64 in
    let rec go p = match p with
      | XH -> Buffer.add_char bits '1'
      | XO q -> Buffer.add_char bits '0'; go q
      | XI q -> Buffer.add_char bits '1'; go q in
    go p;
    let s = Buffer.contents bits in
    let len = String.length s in
    let nd = (len + 3) / 4 in
    let out = Bytes.make nd '0' in
    for d = 0 to nd - 1 do
      let v = ref 0 in
      for b = 0 to 3 do
        let i = 4 * d + b in
        if i < len && s.[i] = '1' then v := !v lor (1 lsl b)
      done;
      Bytes.set out (nd - 1 - d) "0123456789abcdef".[!v]
    done;
    Bytes.to_string out
let int_of_z (z : z) : int = match z with Z0 -> 0 | Zpos p -> int_of_pos p | Zneg p -> - (int_of_pos p)
let opt_col (i : int) : nat option = if i < 0 then None else Some (nat_of_int i)
let ids_str (l : nat list) : string =
  if l = [] then "-" else String.concat "." (List.map (fun x -> string_of_int (int_of_nat x)) l)
let split_dot (s : string) : string list = if s = "-" then [] else String.split_on_char '.' s

let () =
  let id (w : dec) = w in
  try
    while true do
      let line = input_line stdin in
      let toks = Array.of_list (split_ws line) in
      let pos = ref 0 in
      let next () = let t = toks.(!pos) in incr pos; t in
      let nexti () = int_of_string (next ()) in
      let sort_original = nexti () = 1 in
      let img = nexti () in
      let nfiles = nexti () in
      let files = List.init nfiles (fun _ ->
        let tc = nexti () in let cc = nexti () in let wc = nexti () in
        let nl = nexti () in
        let lines = List.init nl (fun _ -> bytes_of_hex (next ())) in
        ({ col_text = opt_col tc; col_code = opt_col cc; col_weight = opt_col wc }, lines)) in
      let _ = next () (* Q *) in
      let nq = nexti () in
      let queries = List.init nq (fun _ -> List.map bytes_of_hex (split_dot (next ()))) in
      let _ = next () (* R *) in
      let nr = nexti () in
      let revs = List.init nr (fun _ -> bytes_of_hex (next ())) in
      let c = compile sort_original files in
      let s = List.length c.c_syll in
      let sn = nat_of_int s in
      let fixed = bytes_fixed current_layout sn c.c_voc in
      let need = bytes_needed current_layout sn c.c_voc (n_of_int img) in
      let est = estimate current_layout current_facts.bf_estimate sn c.c_num_entries c.c_voc in
      let b = table_build current_layout current_facts sn c.c_num_entries c.c_voc (n_of_int img) in
      let bs, ep, us, cp = match b with
        | Ok m -> "ok", int_of_nat m.epoch, int_of_n m.used, int_of_n m.cap
        | Err StalePointer -> "stale-pointer", -1, -1, -1
        | Err StaleStringRefs -> "stale-refs", -1, -1, -1
        | Err NoEstimate -> "no-estimate", -1, -1, -1 in
      Printf.printf "hdr S=%d N=%d uncoded=%d fixed=%d need=%d est=%s build=%s epoch=%d used=%d cap=%d\n"
        s (int_of_nat c.c_num_entries) (int_of_nat c.c_uncoded) (int_of_n fixed) (int_of_n need)
        (match est with Some e -> string_of_int (int_of_n e) | None -> "none") bs ep us cp;
      List.iter (fun x -> Printf.printf "syl %s\n" (hex_of_bytes x)) c.c_syll;
      let print_ent tag (code, e) =
        Printf.printf "%s %s %s %s %d\n" tag (hex_of_bytes e.ie_text) (ids_str code)
          (hex_of_n e.ie_w.dm) (int_of_z e.ie_w.de) in
      List.iter (print_ent "ent") (enumerate sn c.c_index);
      (* the vocabulary in map order: must be the same sequence (TableProofs.enumerate_build) *)
      let fl = flat1 c.c_voc in
      let en = enumerate sn c.c_index in
      if List.length fl <> List.length en ||
         not (List.for_all2 (fun (c1, (t1, w1)) (c2, e2) -> c1 = c2 && t1 = e2.ie_text && w1 = e2.ie_w) fl en)
      then print_endline "MODEL-INCONSISTENT enumerate<>flat1";
      List.iteri (fun i q ->
        match code_ids c.c_syll q with
        | None -> Printf.printf "qry %d unknown-syllable\n" i
        | Some ids ->
          let r = query_phrases c.c_index ids in
          Printf.printf "qry %d %d\n" i (List.length r);
          List.iter (print_ent (Printf.sprintf "qent %d" i)) r) queries;
      List.iteri (fun i t ->
        Printf.printf "rev %d %s\n" i
          (match rev_lookup c.c_syll c.c_voc t with Some r -> hex_of_bytes r | None -> "none")) revs;
      print_endline "end";
      ignore id
    done
  with End_of_file -> ()
