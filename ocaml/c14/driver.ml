(* C14 model runner.
   stdin records (one per line):
     SET <id>
     DOC <resid> <tokens>     tokens: N | S<hex|-> | L<n> item*n | M<n> (K<hex|-> item)*n   (document order)
     SPEC <fuel> <name>       -> "S <set> <name> <loaded> <linked> <err><cyc><oof> <tree>"
     IMPL <wf> <fuel|auto> <name>  -> "I <set> <name> <loaded> <linked> <oof><woof><ub> <tree>"
                                 "IR <set> <name> <resid> <loaded> <tree>"   every resource of that run
                                 "IL <set> <name> <resid> <ok> <tree>"       Link of the other loaded resources, same state
     END                      -> "E <set>"
   trees are printed like harness/c14/c14.cc prints them. *)
let rec parse_y (toks : Stdlib.String.t list) : ydoc * Stdlib.String.t list =
  match toks with
  | [] -> failwith "eof"
  | t :: rest ->
    let arg = String.sub t 1 (String.length t - 1) in
    (match t.[0] with
     | 'N' -> (YNull, rest)
     | 'S' -> (YScalar (bytes_of_hex arg), rest)
     | 'L' ->
       let n = int_of_string arg in
       let rec go n rest acc = if n = 0 then (List.rev acc, rest) else
           let (y, rest') = parse_y rest in go (n - 1) rest' (y :: acc) in
       let (l, rest') = go n rest [] in (YSeq l, rest')
     | 'M' ->
       let n = int_of_string arg in
       let rec go n rest acc = if n = 0 then (List.rev acc, rest) else
           match rest with
           | k :: rest1 ->
             let key = bytes_of_hex (String.sub k 1 (String.length k - 1)) in
             let (y, rest') = parse_y rest1 in go (n - 1) rest' ((key, y) :: acc)
           | [] -> failwith "eof" in
       let (l, rest') = go n rest [] in (YMap l, rest')
     | _ -> failwith ("bad token " ^ t))

let hexs (b : byte list) : Stdlib.String.t = let h = hex_of_bytes b in if h = "-" then "" else h

let rec canon (b : Buffer.t) (v : item) : unit =
  match v with
  | Null -> Buffer.add_string b "~"
  | Scalar s -> Buffer.add_char b '"'; Buffer.add_string b (hexs s); Buffer.add_char b '"'
  | Lst l ->
    Buffer.add_char b '[';
    List.iteri (fun i x -> if i > 0 then Buffer.add_char b ','; canon b x) l;
    Buffer.add_char b ']'
  | Map m ->
    Buffer.add_char b '{';
    List.iteri (fun i (k, x) -> if i > 0 then Buffer.add_char b ',';
                 Buffer.add_string b (hexs k); Buffer.add_char b ':'; canon b x) m;
    Buffer.add_char b '}'
let canon_s v = let b = Buffer.create 256 in canon b v; Buffer.contents b
let b01 x = if x then "1" else "0"

let () =
  let set = ref "" and ds : (byte list * ydoc) list ref = ref [] in
  try
    while true do
      let line = input_line stdin in
      (match split_ws line with
       | ["SET"; id] -> set := id; ds := []
       | "DOC" :: rid :: toks ->
         let (y, _) = parse_y toks in
         ds := !ds @ [(bytes_of_string rid, y)]
       | ["SPEC"; fuel; name] ->
         let (((loaded, v), fl), linked) = spec_link !ds (nat_of_int (int_of_string fuel)) (bytes_of_string name) in
         Printf.printf "S %s %s %s %s %s%s%s %s\n" !set name (b01 loaded) (b01 linked)
           (b01 fl.f_err) (b01 fl.f_cyc) (b01 fl.f_oof) (canon_s v)
       | ["IMPL"; wf; fuel; name] ->
         (* "auto": one more than the bound of theorem C14_compile_total_resolve *)
         let wf = nat_of_int (int_of_string wf)
         and fuel = if fuel = "auto" then S (fuel_bound !ds) else nat_of_int (int_of_string fuel) in
         let o = compile_impl !ds wf fuel (bytes_of_string name) in
         Printf.printf "I %s %s %s %s %s%s%s %s\n" !set name (b01 o.o_loaded) (b01 o.o_linked)
           (b01 o.o_oof) (b01 o.o_woof) (b01 o.o_ub) (canon_s o.o_tree);
         let ids = List.sort (fun (a, _) (b, _) -> compare (string_of_bytes a) (string_of_bytes b)) (loaded_ids o.o_state) in
         List.iter (fun (id, ld) ->
             Printf.printf "IR %s %s %s %s %s\n" !set name (string_of_bytes id) (b01 ld)
               (canon_s (resource_tree wf o.o_state id))) ids;
         let tid = string_of_bytes (to_resource_id (bytes_of_string name)) in
         let st = ref o.o_state in
         List.iter (fun (id, ld) ->
             if ld && string_of_bytes id <> tid then begin
               let (ok, st') = relink !ds wf fuel !st id in
               st := st';
               Printf.printf "IL %s %s %s %s %s\n" !set name (string_of_bytes id) (b01 ok)
                 (canon_s (resource_tree wf st' id))
             end) ids
       | ["END"] -> Printf.printf "E %s\n" !set
       | [] -> ()
       | _ -> print_endline "BADLINE");
      flush stdout
    done
  with End_of_file -> ()
