(* C18 model runner (conversion glue only; all logic is in the extracted model).
   stdin, one case per line:
     H <op>;<op>;...          a history of API calls over 3 config slots
        ops: ss:c:hexpath:hexval  si:c:hexpath:int  sb:c:hexpath:0|1  sd:c:hexpath:hextext
             cl:c:hexpath (clear)  ml:c:hexpath (create_list)  mm:c:hexpath (create_map)
             gs gi gb gd ls il im :c:hexpath     it:c:hexpath:dst  st:c:hexpath:src   sl:c (save+load)
     T <tree>                 emit the tree, load the emitted bytes
     Y <hexdoc>               load a document
   tree syntax: N | S<hex>; | L(t,t,..) | M(<hexkey>=t,..)
   stdout, one line per case (see the C++ harness for the same format). *)
let z_of_int (i : int) : z = if i = 0 then Z0 else if i > 0 then Zpos (pos_of_int i) else Zneg (pos_of_int (- i))
let int_of_z (x : z) : int = match x with Z0 -> 0 | Zpos p -> int_of_pos p | Zneg p -> - (int_of_pos p)
let hexs (l : byte list) : string = let h = hex_of_bytes l in if h = "-" then "" else h
let unhex (h : string) : byte list = if h = "" then [] else bytes_of_hex h

let rec show_item (b : Buffer.t) (t : item) : unit =
  match t with
  | Null -> Buffer.add_char b 'N'
  | Scalar s -> Buffer.add_char b 'S'; Buffer.add_string b (hexs s); Buffer.add_char b ';'
  | Lst l ->
    Buffer.add_string b "L(";
    List.iteri (fun i x -> if i > 0 then Buffer.add_char b ','; show_item b x) l;
    Buffer.add_char b ')'
  | Map m ->
    Buffer.add_string b "M(";
    List.iteri (fun i (k, x) -> if i > 0 then Buffer.add_char b ','; Buffer.add_string b (hexs k); Buffer.add_char b '='; show_item b x) m;
    Buffer.add_char b ')'
let item_str t = let b = Buffer.create 256 in show_item b t; Buffer.contents b

(* recursive-descent reader for the tree syntax *)
let parse_item (s : string) : item =
  let pos = ref 0 in
  let peek () = s.[!pos] in
  let adv () = incr pos in
  let hexrun stop = let st = !pos in while peek () <> stop do adv () done; let h = String.sub s st (!pos - st) in adv (); h in
  let rec go () : item =
    match peek () with
    | 'N' -> adv (); Null
    | 'S' -> adv (); Scalar (unhex (hexrun ';'))
    | 'L' -> adv (); adv ();
      let acc = ref [] in
      while peek () <> ')' do acc := go () :: !acc; if peek () = ',' then adv () done; adv ();
      Lst (List.rev !acc)
    | 'M' -> adv (); adv ();
      let acc = ref [] in
      while peek () <> ')' do let k = unhex (hexrun '=') in let v = go () in acc := (k, v) :: !acc; if peek () = ',' then adv () done; adv ();
      Map (List.rev !acc)
    | _ -> failwith "bad tree"
  in go ()

let show_obs (o : obs) : string =
  match o with
  | RBool b -> if b then "B1" else "B0"
  | RString None -> "S!" | RString (Some s) -> "S" ^ hexs s
  | RInt None -> "I!" | RInt (Some z) -> "I" ^ string_of_int (int_of_z z)
  | RFlag None -> "F!" | RFlag (Some b) -> if b then "F1" else "F0"
  | RSize n -> "Z" ^ string_of_int (int_of_nat n)
  | RPaths None -> "P!"
  | RPaths (Some l) -> "P" ^ String.concat "," (List.map (fun (k, p) -> hexs k ^ "=" ^ hexs p) l)

let store_str (st : item list) = String.concat "/" (List.map item_str st)

let run_history (line : string) : string =
  let ops = List.filter (fun x -> x <> "") (String.split_on_char ';' line) in
  let st = ref [Null; Null; Null] in
  let out = Buffer.create 1024 in
  List.iteri (fun i o ->
    let f = Array.of_list (String.split_on_char ':' o) in
    let c () = nat_of_int (int_of_string f.(1)) in
    let p () = unhex f.(2) in
    let step op = let (st', ob) = api_step !st op in st := st'; show_obs ob in
    let r = match f.(0) with
      | "ss" -> step (OSetString (c (), p (), unhex f.(3)))
      | "sd" -> step (OSetString (c (), p (), unhex f.(3)))   (* the "%f" text of the double, computed by the check *)
      | "si" -> step (OSetInt (c (), p (), z_of_int (int_of_string f.(3))))
      | "sb" -> step (OSetBool (c (), p (), f.(3) = "1"))
      | "cl" -> step (OClear (c (), p ()))
      | "ml" -> step (OCreateList (c (), p ()))
      | "mm" -> step (OCreateMap (c (), p ()))
      | "gs" -> step (OGetString (c (), p ()))
      | "gi" -> step (OGetInt (c (), p ()))
      | "gb" -> step (OGetBool (c (), p ()))
      | "gd" -> "D?"                                           (* doubles are not modelled *)
      | "ls" -> step (OListSize (c (), p ()))
      | "it" -> step (OGetItem (c (), p (), nat_of_int (int_of_string f.(3))))
      | "st" -> step (OSetItem (c (), p (), nat_of_int (int_of_string f.(3))))
      | "il" -> step (OIterList (c (), p ()))
      | "im" -> step (OIterMap (c (), p ()))
      | "sl" ->
        let ci = int_of_string f.(1) in
        let t = List.nth !st ci in
        let doc = emit_doc t in
        (match load_doc doc with
         | Some t' -> st := List.mapi (fun j x -> if j = ci then t' else x) !st; "Y1" ^ hexs doc
         | None -> "Y0" ^ hexs doc)
      | _ -> "??" in
    if i > 0 then Buffer.add_char out ' ';
    Buffer.add_string out r; Buffer.add_char out '|'; Buffer.add_string out (store_str !st)) ops;
  Buffer.contents out

let () =
  try
    while true do
      let line = input_line stdin in
      let n = String.length line in
      if n < 2 then print_endline "BADLINE" else
      let body = String.sub line 2 (n - 2) in
      (match line.[0] with
       | 'H' -> print_endline (run_history body)
       | 'T' ->
         let t = parse_item body in
         let doc = emit_doc t in
         let back = match load_doc doc with Some t' -> item_str t' | None -> "!" in
         Printf.printf "%s %s %s\n" (hexs doc ^ ".") back (item_str (prune t))
       | 'Y' ->
         (match load_doc (unhex body) with Some t' -> print_endline (item_str t') | None -> print_endline "!")
       | _ -> print_endline "BADLINE")
    done
  with End_of_file -> ()
