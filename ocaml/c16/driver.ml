(* C16 model runner: stdin lines "create <id>" | "destroy <id>" | "find <id>" | "call <id>" | "cleanup" | "advance <secs>" | "cleanup_stale" | "end"
   (a history per block terminated by "end"); stdout: one line per call: "created k" | "bool 0/1" | "acc" | "rej" | "unit",
   then "end". *)
let () =
  let hist = ref [] in
  let flush_hist () =
    let h = List.rev !hist in
    hist := [];
    List.iter (fun (_, o) ->
      print_endline (match o with
        | OCreated i -> Printf.sprintf "created %d" (int_of_n i)
        | OBool b -> if b then "bool 1" else "bool 0"
        | OObs (acc, _) -> if acc then "acc" else "rej"
        | OUnit -> "unit")) (toy_run h);
    print_endline "end" in
  try
    while true do
      let line = input_line stdin in
      match split_ws line with
      | ["create"; i] -> hist := Create (n_of_int (int_of_string i)) :: !hist
      | ["destroy"; i] -> hist := Destroy (n_of_int (int_of_string i)) :: !hist
      | ["find"; i] -> hist := Find (n_of_int (int_of_string i)) :: !hist
      | ["call"; i] -> hist := Call (n_of_int (int_of_string i), n_of_int 1) :: !hist
      | ["cleanup"] -> hist := CleanupAll :: !hist
      | ["advance"; d] -> hist := Advance (n_of_int (int_of_string d)) :: !hist
      | ["cleanup_stale"] -> hist := CleanupStale :: !hist
      | ["end"] -> flush_hist ()
      | _ -> print_endline "BADLINE"
    done
  with End_of_file -> ()
