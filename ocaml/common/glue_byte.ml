(* byte <-> int through the extracted byte_of_N / n_of_byte (needs Base.Bytes extracted) *)
let byte_of_int (i : int) : byte = byte_of_N (n_of_int i)
let int_of_byte (b : byte) : int = int_of_n (n_of_byte b)
let bytes_of_hex (h : Stdlib.String.t) : byte list =
  if h = "-" then [] else
  let n = String.length h / 2 in
  List.init n (fun i -> byte_of_int (16 * hexdigit h.[2*i] + hexdigit h.[2*i+1]))
let hex_of_bytes (l : byte list) : Stdlib.String.t =
  let b = Buffer.create 64 in
  List.iter (fun x -> Buffer.add_string b (Printf.sprintf "%02x" (int_of_byte x))) l;
  if Buffer.length b = 0 then "-" else Buffer.contents b
let bytes_of_string (s : Stdlib.String.t) : byte list =
  List.init (String.length s) (fun i -> byte_of_int (Char.code s.[i]))
let string_of_bytes (l : byte list) : Stdlib.String.t =
  String.concat "" (List.map (fun x -> String.make 1 (Char.chr (int_of_byte x))) l)
