(* Trusted glue shared by all model drivers: conversions between OCaml
   ints/strings and the extracted inductives (nat, positive, N, Z, byte).
   Contains no model logic.  It is textually included after `open <Model>`;
   each block is included only if the extracted module defines the type it needs. *)
(*@needs positive*)
let rec pos_of_int (i : int) : positive =
  if i <= 1 then XH else if i land 1 = 0 then XO (pos_of_int (i lsr 1)) else XI (pos_of_int (i lsr 1))
let rec int_of_pos (p : positive) : int =
  match p with XH -> 1 | XO q -> 2 * int_of_pos q | XI q -> 2 * int_of_pos q + 1
(*@needs n*)
let n_of_int (i : int) : n = if i <= 0 then N0 else Npos (pos_of_int i)
let int_of_n (x : n) : int = match x with N0 -> 0 | Npos p -> int_of_pos p
(*@needs z*)
let z_of_int (i : int) : z = if i = 0 then Z0 else if i > 0 then Zpos (pos_of_int i) else Zneg (pos_of_int (- i))
let int_of_z (x : z) : int = match x with Z0 -> 0 | Zpos p -> int_of_pos p | Zneg p -> - (int_of_pos p)
(*@needs nat*)
let rec nat_of_int (i : int) : nat = if i <= 0 then O else S (nat_of_int (i - 1))
let int_of_nat (x : nat) : int = let rec go a = function O -> a | S y -> go (a + 1) y in go 0 x
(*@needs -*)
let hexdigit c = match c with
  | '0'..'9' -> Char.code c - 48 | 'a'..'f' -> Char.code c - 87 | 'A'..'F' -> Char.code c - 55
  | _ -> failwith "bad hex"
let split_ws (s : Stdlib.String.t) : Stdlib.String.t list =
  List.filter (fun x -> x <> "") (String.split_on_char ' ' (String.trim s))
