(* C10 model runner (same input as the C11 runner).  One history (of one user db) per input line:
     H <event> <event> ...
   events:  L u | T u | F u | D u | K u plain bs now | X u <dentry>
            | C u kind now nsegs { rec conf <dentry> nelems { <dentry> } }
   dentry:  <hex text> <hex custom_code> ncode { <hex syllable> }
   Output per history:
     OPS <op> ...                    the LevelDb calls the model issues (ops_of)
     UNITS <n>                       number of units the atomic semantics closes
     S j <dict>                      reopen (abs_units [] (firstn j units)),  j = 0..n
     P p j <dict>                    kill after p calls: j = closed_count, dict = reopen (recover ...)
     CHK <0|1>                       recover(prefix p) = abs_units (firstn j units) for every p (theorem instance)
     V p <key>=<0|1> ...             which records of the store after p calls are offered (visible)
     CALLS i <key>:<commits> ...     the UpdateEntry calls of the i-th commit event (commit_calls)
     END                                                                                  *)
let z_of_int i = if i = 0 then Z0 else if i > 0 then Zpos (pos_of_int i) else Zneg (pos_of_int (-i))
let int_of_z = function Z0 -> 0 | Zpos p -> int_of_pos p | Zneg p -> - (int_of_pos p)

let toks = ref [||]
let pos = ref 0
let next () = let t = !toks.(!pos) in incr pos; t
let next_int () = int_of_string (next ())
let next_bool () = next () = "1"
let rec times n f = if n <= 0 then [] else let x = f () in x :: times (n - 1) f

let dentry () =
  let text = bytes_of_hex (next ()) in
  let custom = bytes_of_hex (next ()) in
  let n = next_int () in
  let code = times n (fun () -> bytes_of_hex (next ())) in
  { de_text = text; de_custom = custom; de_code = code }

let seg () =
  let r = next_bool () in
  let c = next_bool () in
  let e = dentry () in
  let n = next_int () in
  let els = times n dentry in
  { sg_rec = r; sg_conf = c; sg_entry = e; sg_elems = els }

let event () =
  match next () with
  | "L" -> ELoad (nat_of_int (next_int ()))
  | "T" -> EFetchTick (nat_of_int (next_int ()))
  | "F" -> EFinish (nat_of_int (next_int ()))
  | "D" -> EDestroy (nat_of_int (next_int ()))
  | "K" -> let u = nat_of_int (next_int ()) in let p = next_bool () in let b = next_bool () in
           let now = z_of_int (next_int ()) in EKey (u, p, b, now)
  | "X" -> let u = nat_of_int (next_int ()) in let e = dentry () in EDelete (u, e)
  | "C" -> let u = nat_of_int (next_int ()) in
           let kind = (match next () with "script" -> KScript | _ -> KTable) in
           let now = z_of_int (next_int ()) in
           let n = next_int () in
           let segs = times n seg in ECommit (u, kind, now, segs)
  | t -> failwith ("bad event " ^ t)

let show_val = function
  | VEnt (c, t) -> Printf.sprintf "%d,%d" (int_of_z c) (int_of_n t)
  | VNum n -> Printf.sprintf "n%d" (int_of_n n)
  | VStr -> "*"
let show_op = function
  | OOpen -> "open" | OClose -> "close" | OBegin -> "begin" | OCommit -> "commit" | OAbort -> "abort"
  | OUpdate (k, v) -> "U:" ^ hex_of_bytes k ^ ":" ^ show_val v
  | OErase k -> "E:" ^ hex_of_bytes k
let show_dict d =
  if d = [] then "-" else String.concat " " (List.map (fun (k, v) -> hex_of_bytes k ^ "=" ^ show_val v) d)
let rec take n l = if n <= 0 then [] else match l with [] -> [] | x :: r -> x :: take (n - 1) r

let () =
  try
    while true do
      let line = input_line stdin in
      toks := Array.of_list (split_ws line);
      pos := 0;
      (match next () with
       | "H" ->
         let evs = ref [] in
         while !pos < Array.length !toks do evs := event () :: !evs done;
         let h = List.rev !evs in
         let ops = ops_of [] h in
         print_endline ("OPS " ^ String.concat " " (List.map show_op ops));
         let units = spec_units [] h in
         let nu = List.length units in
         Printf.printf "UNITS %d\n" nu;
         for j = 0 to nu do
           Printf.printf "S %d %s\n" j (show_dict (reopen (abs_units [] (take j units))))
         done;
         let ok = ref true in
         for p = 0 to List.length ops do
           let pre = take p ops in
           let d = recover (db_run (db0 []) pre) in
           let j = int_of_nat (closed_count (db0 []) pre) in
           if d <> abs_units [] (take j units) then ok := false;
           Printf.printf "P %d %d %s\n" p j (show_dict (reopen d));
           Printf.printf "V %d %s\n" p (String.concat " " (List.map (fun (k, v) -> hex_of_bytes k ^ "=" ^ (if visible v then "1" else "0")) d))
         done;
         List.iteri (fun i e -> match e with
           | ECommit (_, kind, _, segs) ->
             Printf.printf "CALLS %d %s\n" i (String.concat " " (List.map (fun (e, c) ->
               (match entry_key e with Some k -> hex_of_bytes k | None -> "none") ^ ":" ^ string_of_int (int_of_z c))
               (commit_calls kind segs ce_empty)))
           | EDelete (_, e) ->
             Printf.printf "CALLS %d %s:-1\n" i (match entry_key e with Some k -> hex_of_bytes k | None -> "none")
           | _ -> ()) h;
         Printf.printf "CHK %d\n" (if !ok then 1 else 0);
         print_endline "END"
       | _ -> print_endline "BADLINE")
    done
  with End_of_file -> ()
