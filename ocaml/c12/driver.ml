(* C12 model runner: replays an edit/deploy history through the extracted
   decision model [deploy], threading the artefact store.  Trusted glue only:
   parsing, printing and the tables that stand for the external functions
   (CRC32 = injective interning of (initial remainder, content ids); the YAML /
   dictionary-header parsers = lookup tables sampled by the check).
   stdin lines:
     R                              reset the artefact store (empty build directory)
     F <kind> <id> <cid> <mtime>    a source file of the coming deployment
                                    kind: 0 default 1 default.custom 2 schema 3 custom 4 dict 5 vocabulary 6 other config resource
     L <key> <ids|->                schema_list of the compiled default built from <key>
     I <key> <dict|-> <prism|-> <packs|-> <deps|->   contents of the compiled schema built from <key>
     D <cid> <imports|-> <vocab|->  header of the dictionary file with content <cid>
     P <target d|schema id> <k:id,...>   resources the config compiler loads for that target (kinds as in F, 6 = other)
     G                              deploy; prints the decision log, then "ok <0|1>", then "end"
   <key> = content ids of the resources a compiled config is built from, in the
   model's [deps_of] order, "-" for an absent file, comma separated. *)
let srcs : (fname * fver) list ref = ref []
let arts : (akey * art) list ref = ref []
let ltab : (string, n list) Hashtbl.t = Hashtbl.create 16
let itab : (string, schema_info) Hashtbl.t = Hashtbl.create 16
let dtab : (int, dict_info) Hashtbl.t = Hashtbl.create 16
let ptab : (string, rname list) Hashtbl.t = Hashtbl.create 16
let crctab : (string, int) Hashtbl.t = Hashtbl.create 64
let cytab : (string, int) Hashtbl.t = Hashtbl.create 64
let fresh = ref 1000

let intern tab key =
  match Hashtbl.find_opt tab key with
  | Some v -> v
  | None -> incr fresh; Hashtbl.add tab key !fresh; !fresh

let ids s = if s = "-" then [] else List.map (fun x -> n_of_int (int_of_string x)) (String.split_on_char ',' s)
let opt s = if s = "-" then None else Some (n_of_int (int_of_string s))

let crc (init : n) (l : n list) : n =
  n_of_int (intern crctab (String.concat "," (List.map (fun x -> string_of_int (int_of_n x)) (init :: l))))

let key_of_from (f : (rname * fver option) list) : string =
  String.concat "," (List.map (fun (_, v) -> match v with Some v -> string_of_int (int_of_n v.fv_cid) | None -> "-") f)

let cyid (c : cyaml) : n =
  let ts = String.concat "," (List.map (fun (_, t) -> string_of_int (int_of_n t)) c.cy_ts) in
  n_of_int (intern cytab (ts ^ "|" ^ key_of_from c.cy_from))

let list_of f = match Hashtbl.find_opt ltab (key_of_from f) with Some l -> l | None -> []
let info_of f = match Hashtbl.find_opt itab (key_of_from f) with
  | Some i -> i
  | None -> { si_dict = None; si_prism = None; si_packs = []; si_deps = [] }
let dinfo_of c = match Hashtbl.find_opt dtab (int_of_n c) with
  | Some d -> d
  | None -> { di_imports = []; di_vocab = None }

let rname_of k id = match k with
  | 0 -> RDefault | 1 -> RDefaultCustom | 2 -> RSchema id | 3 -> RCustom id | _ -> ROther id
let tkey = function None -> "d" | Some x -> string_of_int (int_of_n x)
let deps_fn (_ : (fname * fver) list) (t : n option) : rname list =
  match Hashtbl.find_opt ptab (tkey t) with
  | Some l -> l
  | None -> (match t with None -> [RDefault; RDefaultCustom] | Some x -> [RDefault; RDefaultCustom; RCustom x; RSchema x])

let b x = if x then 1 else 0
let tname = function None -> "default" | Some x -> "schema" ^ string_of_int (int_of_n x)

let print_entry = function
  | LCfg (t, r) -> Printf.printf "cfg %s %d\n" (tname t) (b r)
  | LDict (d, fs, bt, bp) -> Printf.printf "dict %d %d %d %d\n" (int_of_n d) (b fs) (b bt) (b bp)
  | LNoSourceNoTable d -> Printf.printf "dict %d no_source_no_table\n" (int_of_n d)
  | LPack (q, st) ->
    (match int_of_n st with
     | 0 -> Printf.printf "pack %d no_source\n" (int_of_n q)
     | 1 -> Printf.printf "pack %d 1\n" (int_of_n q)
     | 2 -> Printf.printf "pack %d 0\n" (int_of_n q)
     | _ -> ())
  | LSchemaMissing (_, _) | LDictFail _ | LPrismFail _ -> ()

let () =
  try
    while true do
      let line = input_line stdin in
      match split_ws line with
      | ["R"] -> arts := []
      | ["F"; k; id; cid; mt] ->
        let id = n_of_int (int_of_string id) in
        let f = match int_of_string k with
          | 0 -> FRes RDefault | 1 -> FRes RDefaultCustom | 2 -> FRes (RSchema id) | 3 -> FRes (RCustom id)
          | 4 -> FDict id | 5 -> FVocab id | _ -> FRes (ROther id) in
        srcs := !srcs @ [(f, { fv_cid = n_of_int (int_of_string cid); fv_mtime = n_of_int (int_of_string mt) })]
      | ["L"; key; l] -> Hashtbl.replace ltab key (ids l)
      | ["I"; key; d; p; pk; dp] ->
        Hashtbl.replace itab key { si_dict = opt d; si_prism = opt p; si_packs = ids pk; si_deps = ids dp }
      | ["P"; t; l] ->
        let rs = if l = "-" then [] else List.map (fun x ->
            match String.split_on_char ':' x with
            | [k; id] -> rname_of (int_of_string k) (n_of_int (int_of_string id))
            | _ -> failwith "bad resource") (String.split_on_char ',' l) in
        Hashtbl.replace ptab t rs
      | ["D"; cid; im; v] -> Hashtbl.replace dtab (int_of_string cid) { di_imports = ids im; di_vocab = opt v }
      | ["G"] ->
        let ((a, log), ok) = deploy crc cyid list_of info_of dinfo_of deps_fn !srcs !arts in
        arts := a;
        List.iter print_entry log;
        Printf.printf "ok %d\nend\n%!" (b ok);
        srcs := [];
        Hashtbl.reset ptab
      | _ -> print_endline "BADLINE"
    done
  with End_of_file -> ()
