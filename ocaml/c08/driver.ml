(* C08 model runner.  stdin (same stream the harness reads, with the prism lines replaced by the harness's dump):
     P <keyhex>=<sid>:<type>:<credbits>,... <keyhex>=...      the prism as a finite map
     D <hex delimiters | ->
     G <completion 0|1> <strict 0|1> <hex input | ->
   stdout: one canonical SyllableGraph line per G line (same format as harness/c08/c08.cc). *)
let syms_of_hex (h : Stdlib.String.t) : nat list =
  if h = "-" then [] else
  let n = String.length h / 2 in
  List.init n (fun i -> nat_of_int (16 * hexdigit h.[2*i] + hexdigit h.[2*i+1]))

let parse_desc (s : Stdlib.String.t) : desc =
  match String.split_on_char ':' s with
  | [sid; ty; cr] -> { d_sid = nat_of_int (int_of_string sid); d_type = nat_of_int (int_of_string ty);
                       d_cred = n_of_int (int_of_string cr) }
  | _ -> failwith "bad desc"

let parse_entry (s : Stdlib.String.t) : nat list * desc list =
  match String.split_on_char '=' s with
  | [k; ds] -> (syms_of_hex k, List.map parse_desc (String.split_on_char ',' ds))
  | _ -> failwith "bad entry"

let cred_str (c : cred) = Printf.sprintf "%d.%d.%d" (int_of_n c.c_base) (int_of_nat c.c_comp) (int_of_nat c.c_pen)

let print_graph (g : graph) =
  let b = Buffer.create 256 in
  let i = int_of_nat in
  Buffer.add_string b (Printf.sprintf "r=%d n=%d il=%d V=" (i g.g_interpreted_length) (i g.g_input_length) (i g.g_interpreted_length));
  Buffer.add_string b (String.concat "," (List.map (fun (p, t) -> Printf.sprintf "%d:%d" (i p) (i t)) g.g_vertices));
  Buffer.add_string b " E=";
  List.iter (fun (s, ev) ->
    Buffer.add_string b (Printf.sprintf "%d{" (i s));
    List.iter (fun (e, sm) ->
      Buffer.add_string b (Printf.sprintf "%d[" (i e));
      Buffer.add_string b (String.concat "," (List.map (fun (sid, pr) ->
        Printf.sprintf "%d:%d:%d:%s" (i sid) (i pr.p_type) (i pr.p_end) (cred_str pr.p_cred)) sm));
      Buffer.add_string b "]") ev;
    Buffer.add_string b "}") g.g_edges;
  Buffer.add_string b " I=";
  List.iter (fun (s, ix) ->
    Buffer.add_string b (Printf.sprintf "%d{" (i s));
    List.iter (fun (sid, l) ->
      Buffer.add_string b (Printf.sprintf "%d[" (i sid));
      Buffer.add_string b (String.concat "," (List.map (fun pr ->
        Printf.sprintf "%d:%d:%s" (i pr.p_end) (i pr.p_type) (cred_str pr.p_cred)) l));
      Buffer.add_string b "]") ix;
    Buffer.add_string b "}") g.g_indices;
  print_endline (Buffer.contents b)

let () =
  let prism = ref [] and delims = ref [] in
  try
    while true do
      let line = input_line stdin in
      match split_ws line with
      | "P" :: entries -> prism := List.map parse_entry entries
      | ["D"; h] -> delims := syms_of_hex h
      | ["G"; c; s; h] ->
        (match build_syllable_graph !prism !delims (c = "1") (s = "1") (syms_of_hex h) with
         | Some g -> print_graph g
         | None -> print_endline "OUT-OF-FUEL")
      | _ -> ()
    done
  with End_of_file -> ()
