(* "rmodel session": the extracted Eng model behind the same line protocol as
   harness/eng/session.cc.  Trusted glue only (parsing of op lines, printing of
   observations); no model logic.

   usage: eng model [dlog|nodlog] < histories     the model's observation lines
          eng wf < observation lines            C02 oracle (Spec.wf_viewb / wf_view_utf8b): "<core> <utf8>" per line
          eng buf < key histories               C05 buffer spec: "<handled> I=<hex> K=<caret>" per key
   (dlog = DLOG statements evaluated, i.e. the Debug/sanitizer build; default dlog)

   histories: "schema synth_express|synth_fluid|synth_punct_express|synth_punct_fluid" starts a history (fresh model
   state); then one op per line (see harness/eng/session.cc).  One observation
   line per op, "== <schema>" per history, "CRASH <kind>" once the model reached
   an undefined C++ operation. *)

(* ---- arbitrary-size decimal <-> positive (indices go up to 2^64-1) ---- *)
let dec_halve (s : Stdlib.String.t) : Stdlib.String.t * int =
  let b = Buffer.create (String.length s) in
  let carry = ref 0 in
  String.iter (fun ch ->
      let d = !carry * 10 + (Char.code ch - 48) in
      Buffer.add_char b (Char.chr (48 + d / 2));
      carry := d mod 2) s;
  let r = Buffer.contents b in
  let i = ref 0 in
  while !i < String.length r - 1 && r.[!i] = '0' do incr i done;
  (String.sub r !i (String.length r - !i), !carry)

let rec pos_of_dec (s : Stdlib.String.t) : positive =
  if s = "1" then XH
  else let (h, bit) = dec_halve s in
    if bit = 0 then XO (pos_of_dec h) else XI (pos_of_dec h)

let n_of_dec (s : Stdlib.String.t) : n =
  let i = ref 0 in
  while !i < String.length s - 1 && s.[!i] = '0' do incr i done;
  let s = String.sub s !i (String.length s - !i) in
  if s = "0" || s = "" then N0 else Npos (pos_of_dec s)

let dec_double_add (s : Stdlib.String.t) (bit : int) : Stdlib.String.t =
  let n = String.length s in
  let out = Bytes.make (n + 1) '0' in
  let carry = ref bit in
  for i = n - 1 downto 0 do
    let d = (Char.code s.[i] - 48) * 2 + !carry in
    Bytes.set out (i + 1) (Char.chr (48 + d mod 10));
    carry := d / 10
  done;
  Bytes.set out 0 (Char.chr (48 + !carry));
  let r = Bytes.to_string out in
  if r.[0] = '0' then String.sub r 1 n else r

let rec dec_of_pos (p : positive) : Stdlib.String.t =
  match p with
  | XH -> "1"
  | XO q -> dec_double_add (dec_of_pos q) 0
  | XI q -> dec_double_add (dec_of_pos q) 1

let dec_of_n (x : n) : Stdlib.String.t = match x with N0 -> "0" | Npos p -> dec_of_pos p
let dec_of_z (x : z) : Stdlib.String.t =
  match x with Z0 -> "0" | Zpos p -> dec_of_pos p | Zneg p -> "-" ^ dec_of_pos p
let z_of_dec (s : Stdlib.String.t) : z =
  if String.length s > 0 && s.[0] = '-' then
    (match n_of_dec (String.sub s 1 (String.length s - 1)) with N0 -> Z0 | Npos p -> Zneg p)
  else (match n_of_dec s with N0 -> Z0 | Npos p -> Zpos p)

let hx (l : byte list) : Stdlib.String.t = hex_of_bytes l
let b01 (b : bool) : Stdlib.String.t = if b then "1" else "0"

let err_name = function
  | ErrSubstr -> "substr-out-of-range"
  | ErrNullDeref -> "null-dereference"
  | ErrBadRange -> "bad-range"
  | ErrFuel -> "model-out-of-fuel"
  | ErrRecursion -> "unbounded-recursion"
  | ErrDangling -> "dangling-pointer"

let print_obs (r : ret) (v : view) : unit =
  let b = Buffer.create 256 in
  let add = Buffer.add_string b in
  (match r with
   | RNone -> add "-"
   | RBool x -> add (b01 x)
   | RCommit None -> add "0"
   | RCommit (Some t) -> add ("1:" ^ hx t));
  add (" C=" ^ hx v.v_commit);
  add (" I=" ^ hx v.v_input);
  add (" K=" ^ string_of_int (int_of_nat v.v_caret));
  add (" c=" ^ b01 v.v_composing);
  (match v.v_preedit with
   | Some p ->
     add (Printf.sprintf " P=%s pl=%d pc=%d ss=%d se=%d" (hx p.pe_text) (List.length p.pe_text)
            (int_of_nat p.pe_caret) (int_of_nat p.pe_sel_start) (int_of_nat p.pe_sel_end))
   | None -> add " P=- pl=0 pc=0 ss=0 se=0");
  add (" V=" ^ hx v.v_preview);
  add (" hm=" ^ b01 v.v_has_menu);
  add (" si=" ^ (match v.v_sel with Some i -> dec_of_n i | None -> "-"));
  (match v.v_menu with
   | Some m ->
     let n = List.length m.mo_cands in
     add (Printf.sprintf " ps=%s pg=%s L=%s hl=%s n=%d" (dec_of_z m.mo_page_size) (dec_of_z m.mo_page_no)
            (b01 m.mo_last) (dec_of_z m.mo_hl) n);
     add (" T=" ^ (if n = 0 then "-" else String.concat "," (List.map (fun c -> hx c.c_text) m.mo_cands)));
     add (" X=" ^ (if n = 0 then "-" else String.concat "," (List.map (fun c -> hx c.c_comment) m.mo_cands)));
     add (" sk=" ^ hx m.mo_select_keys);
     add (" E=" ^ (if n = 0 then "-" else String.concat "," (List.map (fun c -> string_of_int (int_of_nat c.c_end)) m.mo_cands)))
   | None -> add " ps=0 pg=0 L=0 hl=0 n=0 T=- X=- sk=- E=-");
  add (" ge=" ^ (match v.v_back_end with Some e -> string_of_int (int_of_nat e) | None -> "-"));
  add (" cf=" ^ hx v.v_confirmed);
  add (" S=" ^ b01 v.v_composing ^ String.concat "" (List.map b01 v.v_flags) ^ "0");
  print_endline (Buffer.contents b)

let parse_op (toks : Stdlib.String.t list) : op option =
  match toks with
  | ["key"; c; m] -> Some (OpKey (z_of_dec c, z_of_dec m))
  | ["input"; h] -> Some (OpSetInput (bytes_of_hex h))
  | ["caret"; k] -> Some (OpSetCaret (n_of_dec k))
  | ["sel"; k] -> Some (OpSelect (n_of_dec k))
  | ["selp"; k] -> Some (OpSelectPage (n_of_dec k))
  | ["hl"; k] -> Some (OpHighlight (n_of_dec k))
  | ["hlp"; k] -> Some (OpHighlightPage (n_of_dec k))
  | ["del"; k] -> Some (OpDelete (n_of_dec k))
  | ["delp"; k] -> Some (OpDeletePage (n_of_dec k))
  | ["page"; b] -> Some (OpChangePage (b <> "0"))
  | ["commit"] -> Some OpCommit
  | ["clear"] -> Some OpClear
  | ["getcommit"] -> Some OpGetCommit
  | ["getctx"] -> Some OpGetContext
  | ["getinput"] -> Some OpGetInput
  | ["getcaret"] -> Some OpGetCaret
  | ["getstatus"] -> Some OpGetStatus
  | ["opt"; name; v] -> Some (OpSetOption (bytes_of_string name, v <> "0"))
  | ["tick"; ms] -> Some (OpTick (n_of_dec ms))
  | _ -> None

(* ---- mode wf: the C02 oracle (Spec.wf_viewb, extracted) on observation lines ---- *)
let field (toks : Stdlib.String.t list) (k : Stdlib.String.t) : Stdlib.String.t =
  let pre = k ^ "=" in
  let n = String.length pre in
  match List.find_opt (fun t -> String.length t >= n && String.sub t 0 n = pre) toks with
  | Some t -> String.sub t n (String.length t - n)
  | None -> failwith ("missing field " ^ k)

let view_of_line (line : Stdlib.String.t) : view * bool =
  let toks = split_ws line in
  let f = field toks in
  let fi k = int_of_string (f k) in
  let text = bytes_of_hex (f "P") in
  let filled = not (f "P" = "-" && fi "pl" = 0 && fi "pc" = 0 && fi "ss" = 0 && fi "se" = 0) in
  let pre = if filled then Some { pe_text = text; pe_caret = nat_of_int (fi "pc"); pe_sel_start = nat_of_int (fi "ss");
                                  pe_sel_end = nat_of_int (fi "se"); pe_ok = true } else None in
  let neg k = String.length (f k) > 0 && (f k).[0] = '-' in
  let len_ok = fi "pl" = List.length text && not (neg "pc") && not (neg "ss") && not (neg "se") in
  let split_list s = if s = "-" then [] else String.split_on_char ',' s in
  let texts = split_list (f "T") and comments = split_list (f "X") in
  let n = fi "n" in
  let menu =
    if fi "ps" = 0 && n = 0 then None
    else Some { mo_page_size = z_of_dec (f "ps"); mo_page_no = z_of_dec (f "pg"); mo_last = (f "L" = "1");
                mo_hl = z_of_dec (f "hl");
                mo_cands = List.mapi (fun i t -> { c_start = O; c_end = O; c_text = bytes_of_hex t;
                                                   c_comment = (match List.nth_opt comments i with
                                                                | Some x -> bytes_of_hex x | None -> []);
                                                   c_preedit = []; c_type = [] }) texts;
                mo_select_keys = bytes_of_hex (f "sk") } in
  let len_ok = len_ok && List.length texts = n in
  ({ v_commit = bytes_of_hex (f "C"); v_input = bytes_of_hex (f "I"); v_caret = nat_of_int (fi "K");
     v_composing = (f "c" = "1"); v_preedit = pre; v_preview = bytes_of_hex (f "V"); v_has_menu = (f "hm" = "1");
     v_sel = (if f "si" = "-" then None else Some (n_of_dec (f "si"))); v_menu = menu; v_flags = []; v_back_end = None; v_confirmed = [] }, len_ok)

let mode_wf () =
  try
    while true do
      let line = input_line stdin in
      if String.length line = 0 then ()
      else if String.length line >= 2 && String.sub line 0 2 = "==" then print_endline line
      else if String.length line >= 5 && (String.sub line 0 5 = "CRASH" || String.sub line 0 5 = "BADOP") then
        print_endline "- -"
      else
        match (try Some (view_of_line line) with _ -> None) with
        | None -> print_endline "? ?"
        | Some (v, len_ok) ->
          print_endline ((if wf_viewb v && len_ok then "1" else "0") ^ " " ^ (if wf_view_utf8b v then "1" else "0"))
    done
  with End_of_file -> ()

(* ---- mode buf: the C05 buffer specification on a key history ---- *)
let ekey_of_code (c : int) : ekey option =
  if c >= 97 && c <= 122 then Some (EkLetter (byte_of_int c))
  else match c with
    | 0xff08 -> Some EkBackSpace | 0xffff -> Some EkDelete | 0xff96 -> Some EkLeft | 0xff98 -> Some EkRight
    | 0xff50 -> Some EkHome | 0xff57 -> Some EkEnd | 0xff1b -> Some EkEscape | _ -> None

let mode_buf () =
  let b = ref buf_empty in
  try
    while true do
      let line = input_line stdin in
      if String.length line = 0 || line.[0] = '#' then ()
      else match split_ws line with
        | ["schema"; id] -> b := buf_empty; print_endline ("== " ^ id)
        | ["key"; c; "0"] ->
          (match ekey_of_code (int_of_string c) with
           | Some k ->
             let h = handled_spec !b k in
             b := buf_step !b k;
             Printf.printf "%s I=%s K=%d\n" (b01 h) (hx !b.b_text) (int_of_nat !b.b_caret)
           | None -> print_endline "OUT-OF-ALPHABET")
        | _ -> print_endline "OUT-OF-ALPHABET"
    done
  with End_of_file -> ()

let mode_model (dlog : bool) =
  let cfg = ref (synth_cfg false dlog) in
  let st = ref None in
  try
    while true do
      let line = input_line stdin in
      if String.length line = 0 || line.[0] = '#' then ()
      else match split_ws line with
        | ["schema"; id] ->
          if List.mem id ["synth_express"; "synth_fluid"; "synth_punct_express"; "synth_punct_fluid"; "synth_kb_express"; "synth_kb_fluid";
                          "synth_ascii_express"; "synth_ascii_fluid"; "synth_acedit_express"; "synth_acedit_fluid"] then begin
            cfg := (if id = "synth_express" || id = "synth_fluid" then synth_cfg (id = "synth_fluid") dlog
                    else if id = "synth_punct_express" || id = "synth_punct_fluid" then synth_punct_cfg (id = "synth_punct_fluid") dlog
                    else if id = "synth_kb_express" || id = "synth_kb_fluid" then synth_kb_cfg (id = "synth_kb_fluid") dlog
                    else if id = "synth_ascii_express" || id = "synth_ascii_fluid" then synth_ascii_cfg (id = "synth_ascii_fluid") dlog
                    else synth_acedit_cfg (id = "synth_acedit_fluid") dlog);
            st := Some (init_state !cfg);
            print_endline ("== " ^ id)
          end else begin
            st := None;
            print_endline ("== " ^ id ^ " FAIL")
          end
        | toks ->
          (match !st with
           | None -> ()
           | Some s ->
             (match parse_op toks with
              | None -> print_endline ("BADOP " ^ line)
              | Some o ->
                let (s', ob) = step !cfg (synth_translate !cfg) s o in
                st := Some s';
                (match ob with
                 | ObsCrash e -> print_endline ("CRASH " ^ err_name e)
                 | Obs (r, v) -> print_obs r v)))
    done
  with End_of_file -> ()

let () =
  let mode = if Array.length Sys.argv > 1 then Sys.argv.(1) else "model" in
  let dlog = not (Array.length Sys.argv > 2 && Sys.argv.(2) = "nodlog") in
  match mode with
  | "wf" -> mode_wf ()
  | "buf" -> mode_buf ()
  | _ -> mode_model dlog
