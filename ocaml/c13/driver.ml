(* C13 model runner (trusted glue: parsing/printing only).
   stdin lines:
     M <kind 0 table|1 prism|2 reverse> <n> <est> <fin> <ext>
         file left by the first n effects of the builder (previous file removed
         per the translated facts), offered to the model's Load
         -> "reject" | "accept" | "crash"
     T <kind>   -> "<tag_index> <number of effects> <builder_ok 0|1> <number of metadata fields>"
     Y <n> <old size|-> <chunk sizes, comma separated>
         state of the final name after the first n effects of SaveToFile (translated mode)
         -> "absent" | "size <bytes>"   (old content is reported with its size) *)
let kind_of = function 0 -> KTable | 1 -> KPrismF | _ -> KReverse
let rec take n l = if n <= 0 then [] else match l with [] -> [] | x :: r -> x :: take (n - 1) r
let () =
  try
    while true do
      let line = input_line stdin in
      match split_ws line with
      | ["M"; k; n; est; fin; ext] ->
        let k = kind_of (int_of_string k) in
        let extf _ = n_of_int (int_of_string ext) in
        let effs = kill_effs facts k None (n_of_int (int_of_string est)) (n_of_int (int_of_string fin)) extf in
        let st = run_effs (take (int_of_string n) effs) (start_file facts k None) in
        print_endline (match load facts k st with LReject -> "reject" | LAccept -> "accept" | LCrash -> "crash")
      | ["T"; k] ->
        let k = kind_of (int_of_string k) in
        let effs = kill_effs facts k None (n_of_int 10) (n_of_int 5) (fun _ -> n_of_int 1) in
        Printf.printf "%d %d %d %d\n" (int_of_nat (tag_index effs)) (List.length effs)
          (if builder_ok facts k then 1 else 0) (List.length (prog_fields (facts.bf_prog k)))
      | ["Y"; n; old; chunks] ->
        let cs = if chunks = "-" then [] else
            List.map (fun x -> [n_of_int (int_of_string x)]) (String.split_on_char ',' chunks) in
        let st0 = { y_final = (if old = "-" then None else Some [n_of_int (int_of_string old)]); y_tmp = None } in
        let st = run_yeffs (take (int_of_string n) (save_effs facts.bf_save_mode cs)) st0 in
        (match st.y_final with
         | None -> print_endline "absent"
         | Some l -> Printf.printf "size %d\n" (List.fold_left (fun a x -> a + int_of_n x) 0 l))
      | _ -> print_endline "BADLINE"
    done
  with End_of_file -> ()
