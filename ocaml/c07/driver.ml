(* C07 model runner (conversion glue only; no model logic).
   stdin:
     R                                             start a new schema (clears table, prism, syllabary)
     N <code> <next 0|1> <texthex:whex,...|->      table node            (code = ids joined by '.')
     L <code> <extra:texthex:whex,...|->           tail page under a 3-syllable code
     K <keyhex> <sid:type,...|->                   prism key, in ExpandSearch order
     Y <id> <hex>                                  syllable string
     O script <wordcompl> <max_homophones>         options
     O table <completion> <sentence> <delimshex> <max_homographs>
     S <n> <il> <E> <I> <oracle>                   script case: the syllable graph as handed over + the observed sentence
         E = start=end/sid:type:endpos:cred:corr,..|end/..;start=..   ('-' when empty)
         I = start=sid/end:type:cred:corr,..|sid/..;start=..          ('-' when empty)
     T <inputhex> <oracle>                         table case
         oracle = '-' | texthex:code:endpos,...    (the components of the sentence the implementation produced)
     P <penhex> <epshex>                           the per-word constant (kPenalty - kS) and the margin, scaled integers
     G <w|l> <0|1> <total> <precedinghex> <graph> <epshex> <oracle>     a word graph handed to the modelled Poet directly
         graph = '-' | start=end/texthex:id:whex,..|end/-;start=..      (whex = weight * 2^96)
   stdout: one line per S/T line:
     asked=<0|1> orc=<0|1|-> path=<0|1|-> rob=<0|1|-> mw=<hex|-> iw=<hex|-> | CANDS(modelled Poet) || CANDS(observed sentence fed back)
       CANDS = type start end texthex code;...     rob: every decision of the modelled Poet has a margin (Poet.v, [robust]);
       mw / iw: exact weight of the model's / the implementation's sentence in the model's word graph
   one line per G line:  none | sent texthex:id:end,..   followed by  rob=<0|1> mw=<hex|-> iw=<hex|->   *)

let nat = nat_of_int
let ios = int_of_string

let z_of_hex (s : Stdlib.String.t) : z =
  let neg = String.length s > 0 && s.[0] = '-' in
  let s = if neg then String.sub s 1 (String.length s - 1) else s in
  (* most significant digit first *)
  let bits = ref [] in
  String.iter (fun c -> let d = hexdigit c in
                for k = 3 downto 0 do bits := ((d lsr k) land 1 = 1) :: !bits done) s;
  (* !bits is least significant first *)
  let rec build (l : bool list) : positive option =   (* l: least significant first *)
    match l with
    | [] -> None
    | b :: r -> (match build r with
                 | None -> if b then Some XH else None
                 | Some p -> Some (if b then XI p else XO p)) in
  match build !bits with
  | None -> Z0
  | Some p -> if neg then Zneg p else Zpos p

let hex_of_z (x : z) : Stdlib.String.t =
  let rec bits (p : positive) : bool list = match p with XH -> [true] | XO q -> false :: bits q | XI q -> true :: bits q in
  let to_hex (p : positive) =
    let b = Array.of_list (bits p) in           (* least significant first *)
    let n = Array.length b in
    let nd = (n + 3) / 4 in
    String.init nd (fun i -> let j = nd - 1 - i in
      let v = ref 0 in
      for k = 3 downto 0 do v := 2 * !v + (if 4*j+k < n && b.(4*j+k) then 1 else 0) done;
      "0123456789abcdef".[!v]) in
  match x with Z0 -> "0" | Zpos p -> to_hex p | Zneg p -> "-" ^ to_hex p

let text_of_hex (h : Stdlib.String.t) : n list =
  if h = "-" then [] else
  List.init (String.length h / 2) (fun i -> n_of_int (16 * hexdigit h.[2*i] + hexdigit h.[2*i+1]))
let hex_of_text (l : n list) : Stdlib.String.t =
  if l = [] then "-" else String.concat "" (List.map (fun x -> Printf.sprintf "%02x" (int_of_n x)) l)
let code_of_str (s : Stdlib.String.t) : nat list =
  if s = "-" then [] else List.map (fun x -> nat (ios x)) (String.split_on_char '.' s)
let str_of_code (c : nat list) : Stdlib.String.t =
  if c = [] then "-" else String.concat "." (List.map (fun x -> string_of_int (int_of_nat x)) c)
let items (s : Stdlib.String.t) (sep : char) : Stdlib.String.t list =
  if s = "-" || s = "" then [] else String.split_on_char sep s

let tbl : node list ref = ref []
let tails : (nat list * lentry list) list ref = ref []
let prism_ : (n list * (nat * nat) list) list ref = ref []
let syls : (nat * n list) list ref = ref []
let kind = ref "script"
let wordcompl = ref false
let mh = ref 1
let completion = ref false
let sentence_on = ref false
let delims : n list ref = ref []
let mhg = ref 1
let pen : z ref = ref Z0
let eps : z ref = ref Z0

let final_table () : node list =
  List.map (fun nd -> match List.assoc_opt nd.n_code !tails with
                      | Some les -> { nd with n_tail = les }
                      | None -> nd) (List.rev !tbl)

let parse_sentence (s : Stdlib.String.t) : (dentry * nat) list option =
  if s = "-" then None else
  Some (List.map (fun it -> match String.split_on_char ':' it with
    | [tx; cd; ep] -> ({ d_text = text_of_hex tx; d_code = code_of_str cd; d_w = Z0; d_remlen = O; d_match = O }, nat (ios ep))
    | _ -> failwith "bad sentence") (String.split_on_char ',' s))

let parse_edges (s : Stdlib.String.t) =
  List.map (fun st -> match String.split_on_char '=' st with
    | [start; ends] ->
      (nat (ios start), List.map (fun e -> match String.split_on_char '/' e with
        | [endp; sps] -> (nat (ios endp), List.map (fun sp -> match String.split_on_char ':' sp with
            | [sid; ty; ep; cr; corr] -> (nat (ios sid), { p_end = nat (ios ep); p_type = nat (ios ty); p_cred = z_of_hex cr; p_corr = corr = "1" })
            | _ -> failwith "bad spelling") (items sps ','))
        | _ -> failwith "bad end") (items ends '|'))
    | _ -> failwith "bad start") (items s ';')

let parse_indices (s : Stdlib.String.t) =
  List.map (fun st -> match String.split_on_char '=' st with
    | [start; ixs] ->
      (nat (ios start), List.map (fun ix -> match String.split_on_char '/' ix with
        | [sid; ps] -> (nat (ios sid), List.map (fun p -> match String.split_on_char ':' p with
            | [ep; ty; cr; corr] -> { p_end = nat (ios ep); p_type = nat (ios ty); p_cred = z_of_hex cr; p_corr = corr = "1" }
            | _ -> failwith "bad props") (items ps ','))
        | _ -> failwith "bad index") (items ixs '|'))
    | _ -> failwith "bad start") (items s ';')

let type_str = function TPhrase -> "phrase" | TCompletion -> "completion" | TSentence -> "sentence" | TTable -> "table"

let cands_str (cands : cand list) =
  String.concat ";" (List.map (fun c -> Printf.sprintf "%s %d %d %s %s" (type_str c.k_type) (int_of_nat c.k_start) (int_of_nat c.k_end)
                                (hex_of_text c.k_text) (str_of_code c.k_code)) cands)

let optz = function None -> "-" | Some w -> hex_of_z w

let print_result asked orc path rob mw iw (cm : cand list) (co : cand list) =
  Printf.printf "asked=%d orc=%s path=%s rob=%s mw=%s iw=%s | %s || %s\n" (if asked then 1 else 0) orc path rob mw iw
    (cands_str cm) (cands_str co)

(* the grammar of the direct stream: a pure function with values k/4 (harness/c07/poet.cc has the same) *)
let test_grammar (context : n list) (word : n list) (is_rear : bool) : z =
  let h = List.fold_left (fun a x -> a + 3 * int_of_n x) 0 context + List.fold_left (fun a x -> a + 5 * int_of_n x) 0 word
          + (if is_rear then 7 else 0) in
  (* -1 - (h mod 32)/4, scaled by 2^96 = -(4 + h mod 32) * 2^94 *)
  let k = 4 + (h mod 32) in
  let rec shift (p : positive) (n : int) = if n = 0 then p else shift (XO p) (n - 1) in
  Zneg (shift (pos_of_int k) 94)

let parse_wgraph (s : Stdlib.String.t) =
  List.map (fun st -> match String.split_on_char '=' st with
    | [start; ends] ->
      (nat (ios start), List.map (fun e -> match String.split_on_char '/' e with
        | [endp; ents] -> (nat (ios endp), List.map (fun it -> match String.split_on_char ':' it with
            | [tx; id; w] -> { d_text = text_of_hex tx; d_code = [nat (ios id)]; d_w = z_of_hex w; d_remlen = O; d_match = O }
            | _ -> failwith "bad entry") (items ents ','))
        | _ -> failwith "bad end") (items ends '|'))
    | _ -> failwith "bad start") (items s ';')

let () =
  try
    while true do
      let line = input_line stdin in
      match split_ws line with
      | ["R"] -> tbl := []; tails := []; prism_ := []; syls := []
      | "N" :: cd :: nx :: rest ->
        let ents = List.map (fun it -> match String.split_on_char ':' it with
            | [tx; w] -> { te_text = text_of_hex tx; te_w = z_of_hex w }
            | _ -> failwith "bad entry") (match rest with [e] -> items e ',' | _ -> []) in
        tbl := { n_code = code_of_str cd; n_ents = ents; n_next = nx = "1"; n_tail = [] } :: !tbl
      | "L" :: cd :: rest ->
        let les = List.map (fun it -> match String.split_on_char ':' it with
            | [ex; tx; w] -> { le_extra = code_of_str ex; le_ent = { te_text = text_of_hex tx; te_w = z_of_hex w } }
            | _ -> failwith "bad long entry") (match rest with [e] -> items e ',' | _ -> []) in
        tails := (code_of_str cd, les) :: !tails
      | "K" :: k :: rest ->
        let sps = List.map (fun it -> match String.split_on_char ':' it with
            | [sid; ty] -> (nat (ios sid), nat (ios ty))
            | _ -> failwith "bad spelling") (match rest with [e] -> items e ',' | _ -> []) in
        prism_ := !prism_ @ [(text_of_hex k, sps)]
      | ["Y"; id; h] -> syls := !syls @ [(nat (ios id), text_of_hex h)]
      | ["O"; "script"; wc; m] -> kind := "script"; wordcompl := wc = "1"; mh := ios m
      | ["O"; "table"; c; s; d; m] -> kind := "table"; completion := c = "1"; sentence_on := s = "1"; delims := text_of_hex d; mhg := ios m
      | ["P"; p; e] -> pen := z_of_hex p; eps := z_of_hex e
      | ["S"; n; il; e; i; orc] ->
        let g = { g_input_len = nat (ios n); g_ilen = nat (ios il); g_edges = parse_edges e; g_indices = parse_indices i } in
        let t = final_table () in
        let sent = parse_sentence orc in
        let asked = ref false in
        let poet_o _ _ = asked := true; sent in
        let poet_m wg tot = poet_script !pen wg tot in
        let cm = script_query poet_m !wordcompl (nat !mh) g t in
        let co = script_query poet_o !wordcompl (nat !mh) g t in
        let wg = script_wgraph g t (nat !mh) in
        let o = match sent with None -> "-" | Some s -> if wg_path_ok wg O g.g_ilen s then "1" else "0" in
        let p = if !asked then (if wg_has_path wg g.g_ilen then "1" else "0") else "-" in
        let rob = if !asked then (if robust None !pen compare_weight [] !eps false wg g.g_ilen then "1" else "0") else "-" in
        let mw = if !asked then (match poet_m wg g.g_ilen with None -> "-" | Some s -> optz (chain_weight !pen wg O s)) else "-" in
        let iw = if !asked then (match sent with None -> "-" | Some s -> optz (chain_weight !pen wg O s)) else "-" in
        print_result !asked o p rob mw iw cm co
      | ["T"; inp; orc] ->
        let t = final_table () in
        let input = text_of_hex inp in
        let sent = parse_sentence orc in
        let asked = ref false in
        let poet_o _ _ = asked := true; sent in
        let poet_m wg tot = poet_table !pen wg tot in
        let cm = table_query poet_m !completion !sentence_on (nat !mhg) !prism_ !syls t !delims input in
        let co = table_query poet_o !completion !sentence_on (nat !mhg) !prism_ !syls t !delims input in
        let total = nat (List.length input) in
        let wg = if !asked then table_wgraph (nat !mhg) !prism_ !syls t !delims input else [] in
        let o = match sent with None -> "-" | Some s -> if !asked && wg_path_ok wg O total s then "1" else "0" in
        let p = if !asked then (if wg_has_path wg total then "1" else "0") else "-" in
        let rob = if !asked then (if robust None !pen left_associate_compare [] !eps false wg total then "1" else "0") else "-" in
        let mw = if !asked then (match poet_m wg total with None -> "-" | Some s -> optz (chain_weight !pen wg O s)) else "-" in
        let iw = if !asked then (match sent with None -> "-" | Some s -> optz (chain_weight !pen wg O s)) else "-" in
        print_result !asked o p rob mw iw cm co
      | ["G"; c; gram; tot; prec; gs; e; orc] ->
        let wg = parse_wgraph gs in
        let total = nat (ios tot) in
        let cmp = if c = "l" then left_associate_compare else compare_weight in
        let gr = if gram = "1" then Some test_grammar else None in
        let preceding = text_of_hex prec in
        let ez = z_of_hex e in
        let ms = make_sentence gr !pen cmp preceding wg total in
        let rob = robust gr !pen cmp preceding ez (gram = "1") wg total in
        (* exact weight of a chain from whichever position it starts at (a line of the dynamic programme may start at
           the end of an edge without entries); only meaningful without a grammar *)
        let weight_any s = List.fold_left (fun acc o -> match acc with Some _ -> acc | None -> chain_weight !pen wg (nat o) s)
                             None (List.init (ios tot + 1) (fun i -> i)) in
        let sent = parse_sentence orc in
        let mw = match ms with None -> "-" | Some s -> optz (weight_any s) in
        let iw = match sent with None -> "-" | Some s -> optz (weight_any s) in
        let body = match ms with
          | None -> "none"
          | Some [] -> "sent -"
          | Some s -> "sent " ^ String.concat "," (List.map (fun (d, ep) ->
              Printf.sprintf "%s:%s:%d" (hex_of_text d.d_text) (str_of_code d.d_code) (int_of_nat ep)) s) in
        Printf.printf "%s rob=%d mw=%s iw=%s\n" body (if rob then 1 else 0) mw iw
      | [] -> ()
      | _ -> print_endline "BADLINE"
    done
  with End_of_file -> ()
