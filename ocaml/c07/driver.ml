(* C07 model runner (conversion glue only; no model logic).
   stdin:
     R                                             start a new schema (clears table, prism, syllabary)
     N <code> <next 0|1> <texthex:whex,...|->      table node            (code = ids joined by '.')
     L <code> <extra:texthex:whex,...|->           tail page under a 3-syllable code
     K <keyhex> <sid:type,...|->                   prism key, in ExpandSearch order
     Y <id> <hex>                                  syllable string
     O script <wordcompl> <max_homophones>         options
     O table <completion> <sentence> <delimshex> <max_homographs>
     S <n> <il> <E> <I> <oracle>                   script case: the syllable graph as handed over + the observed sentence
         E = start=end/sid:type:endpos:cred:corr,..|end/..;start=..   ('-' when empty)
         I = start=sid/end:type:cred:corr,..|sid/..;start=..          ('-' when empty)
     T <inputhex> <oracle>                         table case
         oracle = '-' | texthex:code:endpos,...    (the components of the sentence the implementation produced)
   stdout: one line per S/T line:  asked=<0|1> orc=<0|1|-> path=<0|1|-> | type start end texthex code;...   *)

let nat = nat_of_int
let ios = int_of_string

let z_of_hex (s : Stdlib.String.t) : z =
  let neg = String.length s > 0 && s.[0] = '-' in
  let s = if neg then String.sub s 1 (String.length s - 1) else s in
  (* most significant digit first *)
  let bits = ref [] in
  String.iter (fun c -> let d = hexdigit c in
                for k = 3 downto 0 do bits := ((d lsr k) land 1 = 1) :: !bits done) s;
  (* !bits is least significant first *)
  let rec build (l : bool list) : positive option =   (* l: least significant first *)
    match l with
    | [] -> None
    | b :: r -> (match build r with
                 | None -> if b then Some XH else None
                 | Some p -> Some (if b then XI p else XO p)) in
  match build !bits with
  | None -> Z0
  | Some p -> if neg then Zneg p else Zpos p

let text_of_hex (h : Stdlib.String.t) : n list =
  if h = "-" then [] else
  List.init (String.length h / 2) (fun i -> n_of_int (16 * hexdigit h.[2*i] + hexdigit h.[2*i+1]))
let hex_of_text (l : n list) : Stdlib.String.t =
  if l = [] then "-" else String.concat "" (List.map (fun x -> Printf.sprintf "%02x" (int_of_n x)) l)
let code_of_str (s : Stdlib.String.t) : nat list =
  if s = "-" then [] else List.map (fun x -> nat (ios x)) (String.split_on_char '.' s)
let str_of_code (c : nat list) : Stdlib.String.t =
  if c = [] then "-" else String.concat "." (List.map (fun x -> string_of_int (int_of_nat x)) c)
let items (s : Stdlib.String.t) (sep : char) : Stdlib.String.t list =
  if s = "-" || s = "" then [] else String.split_on_char sep s

let tbl : node list ref = ref []
let tails : (nat list * lentry list) list ref = ref []
let prism_ : (n list * (nat * nat) list) list ref = ref []
let syls : (nat * n list) list ref = ref []
let kind = ref "script"
let wordcompl = ref false
let mh = ref 1
let completion = ref false
let sentence_on = ref false
let delims : n list ref = ref []
let mhg = ref 1

let final_table () : node list =
  List.map (fun nd -> match List.assoc_opt nd.n_code !tails with
                      | Some les -> { nd with n_tail = les }
                      | None -> nd) (List.rev !tbl)

let parse_sentence (s : Stdlib.String.t) : (dentry * nat) list option =
  if s = "-" then None else
  Some (List.map (fun it -> match String.split_on_char ':' it with
    | [tx; cd; ep] -> ({ d_text = text_of_hex tx; d_code = code_of_str cd; d_w = Z0; d_remlen = O; d_match = O }, nat (ios ep))
    | _ -> failwith "bad sentence") (String.split_on_char ',' s))

let parse_edges (s : Stdlib.String.t) =
  List.map (fun st -> match String.split_on_char '=' st with
    | [start; ends] ->
      (nat (ios start), List.map (fun e -> match String.split_on_char '/' e with
        | [endp; sps] -> (nat (ios endp), List.map (fun sp -> match String.split_on_char ':' sp with
            | [sid; ty; ep; cr; corr] -> (nat (ios sid), { p_end = nat (ios ep); p_type = nat (ios ty); p_cred = z_of_hex cr; p_corr = corr = "1" })
            | _ -> failwith "bad spelling") (items sps ','))
        | _ -> failwith "bad end") (items ends '|'))
    | _ -> failwith "bad start") (items s ';')

let parse_indices (s : Stdlib.String.t) =
  List.map (fun st -> match String.split_on_char '=' st with
    | [start; ixs] ->
      (nat (ios start), List.map (fun ix -> match String.split_on_char '/' ix with
        | [sid; ps] -> (nat (ios sid), List.map (fun p -> match String.split_on_char ':' p with
            | [ep; ty; cr; corr] -> { p_end = nat (ios ep); p_type = nat (ios ty); p_cred = z_of_hex cr; p_corr = corr = "1" }
            | _ -> failwith "bad props") (items ps ','))
        | _ -> failwith "bad index") (items ixs '|'))
    | _ -> failwith "bad start") (items s ';')

let type_str = function TPhrase -> "phrase" | TCompletion -> "completion" | TSentence -> "sentence" | TTable -> "table"

let print_result asked orc path (cands : cand list) =
  let cs = List.map (fun c -> Printf.sprintf "%s %d %d %s %s" (type_str c.k_type) (int_of_nat c.k_start) (int_of_nat c.k_end)
                                (hex_of_text c.k_text) (str_of_code c.k_code)) cands in
  Printf.printf "asked=%d orc=%s path=%s | %s\n" (if asked then 1 else 0) orc path (String.concat ";" cs)

let () =
  try
    while true do
      let line = input_line stdin in
      match split_ws line with
      | ["R"] -> tbl := []; tails := []; prism_ := []; syls := []
      | "N" :: cd :: nx :: rest ->
        let ents = List.map (fun it -> match String.split_on_char ':' it with
            | [tx; w] -> { te_text = text_of_hex tx; te_w = z_of_hex w }
            | _ -> failwith "bad entry") (match rest with [e] -> items e ',' | _ -> []) in
        tbl := { n_code = code_of_str cd; n_ents = ents; n_next = nx = "1"; n_tail = [] } :: !tbl
      | "L" :: cd :: rest ->
        let les = List.map (fun it -> match String.split_on_char ':' it with
            | [ex; tx; w] -> { le_extra = code_of_str ex; le_ent = { te_text = text_of_hex tx; te_w = z_of_hex w } }
            | _ -> failwith "bad long entry") (match rest with [e] -> items e ',' | _ -> []) in
        tails := (code_of_str cd, les) :: !tails
      | "K" :: k :: rest ->
        let sps = List.map (fun it -> match String.split_on_char ':' it with
            | [sid; ty] -> (nat (ios sid), nat (ios ty))
            | _ -> failwith "bad spelling") (match rest with [e] -> items e ',' | _ -> []) in
        prism_ := !prism_ @ [(text_of_hex k, sps)]
      | ["Y"; id; h] -> syls := !syls @ [(nat (ios id), text_of_hex h)]
      | ["O"; "script"; wc; m] -> kind := "script"; wordcompl := wc = "1"; mh := ios m
      | ["O"; "table"; c; s; d; m] -> kind := "table"; completion := c = "1"; sentence_on := s = "1"; delims := text_of_hex d; mhg := ios m
      | ["S"; n; il; e; i; orc] ->
        let g = { g_input_len = nat (ios n); g_ilen = nat (ios il); g_edges = parse_edges e; g_indices = parse_indices i } in
        let t = final_table () in
        let sent = parse_sentence orc in
        let asked = ref false in
        let poet _ _ = asked := true; sent in
        let cands = script_query poet !wordcompl (nat !mh) g t in
        let wg = script_wgraph g t (nat !mh) in
        let o = match sent with None -> "-" | Some s -> if wg_path_ok wg O g.g_ilen s then "1" else "0" in
        let p = if !asked then (if wg_has_path wg g.g_ilen then "1" else "0") else "-" in
        print_result !asked o p cands
      | ["T"; inp; orc] ->
        let t = final_table () in
        let input = text_of_hex inp in
        let sent = parse_sentence orc in
        let asked = ref false in
        let poet _ _ = asked := true; sent in
        let cands = table_query poet !completion !sentence_on (nat !mhg) !prism_ !syls t !delims input in
        let total = nat (List.length input) in
        let wg = if !asked then table_wgraph (nat !mhg) !prism_ !syls t !delims input else [] in
        let o = match sent with None -> "-" | Some s -> if !asked && wg_path_ok wg O total s then "1" else "0" in
        let p = if !asked then (if wg_has_path wg total then "1" else "0") else "-" in
        print_result !asked o p cands
      | [] -> ()
      | _ -> print_endline "BADLINE"
    done
  with End_of_file -> ()
