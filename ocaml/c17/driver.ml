(* C17 model runner.  Reads the same case file as harness/c17/c17.cc on stdin (sync ops carry
   the directory order observed by the harness as "order=j1,j2"), first line "VER <hex>" gives
   RIME_VERSION; prints the same observation lines.  Conversion glue only: every decision is made
   by the extracted functions (step_ret, unpack_into, pack, dump). *)
let o = erased_ops
let rec z_of_int (i : int) : z = if i = 0 then Z0 else if i > 0 then Zpos (pos_of_int i) else Zneg (pos_of_int (- i))
let int_of_z (x : z) : int = match x with Z0 -> 0 | Zpos p -> int_of_pos p | Zneg p -> - (int_of_pos p)
(* decimal strings for numbers beyond 62 bits *)
let string_of_pos (p : positive) : Stdlib.String.t =
  (* little-endian decimal digit array arithmetic *)
  let rec go p = match p with
    | XH -> [1]
    | XO q -> dbl (go q) 0
    | XI q -> dbl (go q) 1
  and dbl ds carry = match ds with
    | [] -> if carry = 0 then [] else [carry]
    | d :: r -> let v = 2 * d + carry in (v mod 10) :: dbl r (v / 10) in
  String.concat "" (List.rev_map string_of_int (go p))
let string_of_n (x : n) = match x with N0 -> "0" | Npos p -> string_of_pos p
let string_of_z (x : z) = match x with Z0 -> "0" | Zpos p -> string_of_pos p | Zneg p -> "-" ^ string_of_pos p
let n_of_string (s : Stdlib.String.t) : n =
  (* decimal string -> N by Horner with extracted-free arithmetic on positives via ints is not enough for 64 bits:
     build through repeated (x*10 + d) on a little-endian bit list *)
  let rec add_bits a b c = match a, b with
    | [], [] -> if c = 0 then [] else [c]
    | x :: a', [] -> let v = x + c in (v land 1) :: add_bits a' [] (v lsr 1)
    | [], y :: b' -> let v = y + c in (v land 1) :: add_bits [] b' (v lsr 1)
    | x :: a', y :: b' -> let v = x + y + c in (v land 1) :: add_bits a' b' (v lsr 1) in
  let rec bits_of_int i = if i = 0 then [] else (i land 1) :: bits_of_int (i lsr 1) in
  let mul10 b = add_bits (0 :: b) (0 :: 0 :: 0 :: b) 0 in
  let bits = ref [] in
  String.iter (fun ch -> bits := add_bits (mul10 !bits) (bits_of_int (Char.code ch - 48)) 0) s;
  let rec strip l = match l with 0 :: r -> strip r | _ -> l in
  match strip (List.rev !bits) with
  | [] -> N0
  | _ :: msb_rest -> (* msb is 1 *)
    Npos (List.fold_left (fun acc b -> if b = 1 then XI acc else XO acc) XH msb_rest)
let hexo l = hex_of_bytes l
let unhexo h = bytes_of_hex h

let dump_db (d : db) : Stdlib.String.t =
  let m k = match find k d.meta with Some v -> hexo v | None -> "-" in
  let rows = List.map (fun ((k, c), t) -> Printf.sprintf " %s:%s:%s" (hexo k) (string_of_z c) (string_of_n t)) (dump o d) in
  Printf.sprintf "tick=%s uid=%s name=%s type=%s n=%d%s" (m mk_tick) (m mk_user_id) (m mk_db_name) (m mk_db_type)
    (List.length rows) (String.concat "" rows)

let maxu = 8
let () =
  let ver = ref [] in
  let cid = ref "" and g = ref Z0 and opidx = ref 0 in
  let users = ref [] in
  let empty_world () = { w_dbs = List.init maxu (fun _ -> { meta = []; data = [] });
                         w_snaps = List.init maxu (fun _ -> None); w_files = List.init maxu (fun _ -> None) } in
  let w = ref (empty_world ()) in
  let inits = ctor_inits_merged_entries in
  let set_db i d = w := { !w with w_dbs = List.mapi (fun j x -> if j = i then d else x) !w.w_dbs } in
  let get_db i = List.nth !w.w_dbs i in
  let upd_data i k v = let d = get_db i in
    (* Db::Update through the model's own sink *)
    set_db i (sink_put d k v) in
  (try
    while true do
      let line = input_line stdin in
      match split_ws line with
      | ["VER"; h] -> ver := unhexo h; print_endline ("V " ^ h)
      | ["CASE"; c; gs] -> cid := c; g := z_of_int (int_of_string gs); opidx := 0; users := []; w := empty_world ()
      | ["DB"; i; t] ->
        let i = int_of_string i in
        users := !users @ [i];
        (* LevelDb::Open on a new store = create_metadata, then the optional "/tick" *)
        let d = create_metadata !ver (uid_of (nat_of_int i)) dict_name { meta = []; data = [] } in
        let d = if t = "-" then d else sink_meta_put d mk_tick (unhexo t) in
        set_db i d
      | "ENT" :: i :: k :: v :: [] -> upd_data (int_of_string i) (unhexo k) (unhexo v)
      | "ENTS" :: i :: rest ->
        let rec go = function k :: v :: r -> upd_data (int_of_string i) (unhexo k) (unhexo v); go r | _ -> () in go rest
      | ["FILE"; s; h] ->
        let s = int_of_string s in
        w := { !w with w_files = List.mapi (fun j x -> if j = s then Some (unhexo h) else x) !w.w_files }
      | ["PAINT"] -> ()
      | ["SHOW"] ->
        print_endline ("I " ^ !cid ^ String.concat " |" (List.map (fun i -> Printf.sprintf " db%d %s" i (dump_db (get_db i))) !users))
      | "OP" :: name :: i :: rest ->
        let i = int_of_string i in
        let args = List.filter (fun a -> not (String.contains a '=')) rest in
        let order = List.fold_left (fun acc a ->
            if String.length a >= 6 && String.sub a 0 6 = "order=" then
              List.map (fun x -> nat_of_int (int_of_string x))
                (List.filter (fun x -> x <> "") (String.split_on_char ',' (String.sub a 6 (String.length a - 6))))
            else acc) [] rest in
        let x = match args with a :: _ -> nat_of_int (int_of_string a) | [] -> O in
        let ni = nat_of_int i in
        let op = match name with
          | "backup" -> OBackup ni | "restore" -> ORestore (ni, x) | "restoref" -> ORestoreFile (ni, x) | "sync" -> OSync (ni, order)
          | "export" -> OExport (ni, x) | "import" -> OImport (ni, x) | "merge" -> OMerge (ni, x)
          | "ubackup" -> OUBackup (ni, x) | "urestore" -> OURestore (ni, x) | "foreign" -> OForeign ni | "leftover" -> OLeftover (ni, x)
          | _ -> failwith "bad op" in
        let (w', r) = step_ret o inits !g !ver !w op in
        w := w';
        let rs = match int_of_z r with -2 -> "nofile" | -3 -> "other" | k -> string_of_int k in
        Printf.printf "O %s %d %s db%d %s\n" !cid !opidx rs i (dump_db (get_db i));
        incr opidx
      | ["END"] ->
        let b = Buffer.create 256 in
        Buffer.add_string b ("E " ^ !cid);
        List.iter (fun i -> Buffer.add_string b (Printf.sprintf " db%d %s |" i (dump_db (get_db i)))) !users;
        List.iter (fun i -> match List.nth !w.w_snaps i with
            | Some f -> Buffer.add_string b (Printf.sprintf " s%d=%s" i (hexo f)) | None -> ()) !users;
        List.iteri (fun s f -> match f with
            | Some f -> Buffer.add_string b (Printf.sprintf " f%d=%s" s (hexo f)) | None -> ()) !w.w_files;
        print_endline (Buffer.contents b)
      | ["U"; h] ->
        let (v, ok) = unpack_into o (value0 o) (unhexo h) in
        Printf.printf "U %d %s %s\n" (if ok then 1 else 0) (string_of_z v.commits) (string_of_n v.tick)
      | ["P"; c; t] ->
        let v = { commits = z_of_int (int_of_string c); dee = Obj.magic (); tick = n_of_string t } in
        Printf.printf "P %s\n" (hexo (pack o v))
      | _ -> ()
    done
  with End_of_file -> ());
  print_endline "DONE"
