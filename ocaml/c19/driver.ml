(* C19 model runner (conversion glue only, no model logic).
   stdin, one case per line:
     K <keycode> <modifier>            KeyEvent(k,m).repr(), then KeyEvent::Parse of that text
     P <hex text>                      KeyEvent::Parse(text), then repr() of the result
     S <n> <k1> <m1> ... <kn> <mn>     KeySequence.repr(), then KeySequence::Parse of that text
     Q <hex text>                      KeySequence::Parse(text), then repr() of the result
     N <hex name>                      RimeGetKeycodeByName
     M <hex name>                      RimeGetModifierByName
     n <keycode>                       RimeGetKeyName
     m <modifier>                      RimeGetModifierName
   stdout: one canonical observation per line (same format as harness/c19/c19.cc). *)
let z_of_int (i : int) : z = if i = 0 then Z0 else if i > 0 then Zpos (pos_of_int i) else Zneg (pos_of_int (- i))
let int_of_z (x : z) : int = match x with Z0 -> 0 | Zpos p -> int_of_pos p | Zneg p -> - (int_of_pos p)
let b01 b = if b then 1 else 0
let opt_hex = function Some b -> hex_of_bytes b | None -> "NULL"
let events_str (l : (z * z) list) =
  String.concat "" (List.map (fun (k, m) -> Printf.sprintf " %d %d" (int_of_z k) (int_of_z m)) l)
let rec pairs = function
  | k :: m :: r -> (z_of_int (int_of_string k), z_of_int (int_of_string m)) :: pairs r
  | _ -> []
let () =
  try
    while true do
      let line = input_line stdin in
      match split_ws line with
      | ["K"; k; m] ->
        let e = (z_of_int (int_of_string k), z_of_int (int_of_string m)) in
        let r = repr_key e in
        let ((ok, pk), pm) = parse_key r in
        Printf.printf "K %s %d %d %d\n" (hex_of_bytes r) (b01 ok) (int_of_z pk) (int_of_z pm)
      | ["P"; h] ->
        let ((ok, pk), pm) = parse_key (bytes_of_hex h) in
        Printf.printf "P %d %d %d %s\n" (b01 ok) (int_of_z pk) (int_of_z pm) (hex_of_bytes (repr_key (pk, pm)))
      | "S" :: _ :: rest ->
        let ks = pairs rest in
        let r = repr_seq ks in
        let (ok, out) = parse_seq r in
        Printf.printf "S %s %d %d%s\n" (hex_of_bytes r) (b01 ok) (List.length out) (events_str out)
      | ["Q"; h] ->
        let (ok, out) = parse_seq (bytes_of_hex h) in
        Printf.printf "Q %d %d%s %s\n" (b01 ok) (List.length out) (events_str out) (hex_of_bytes (repr_seq out))
      | ["N"; h] -> Printf.printf "N %d\n" (int_of_z (rimeGetKeycodeByName (bytes_of_hex h)))
      | ["M"; h] -> Printf.printf "M %d\n" (int_of_z (rimeGetModifierByName (bytes_of_hex h)))
      | ["n"; k] -> Printf.printf "n %s\n" (opt_hex (rimeGetKeyName (z_of_int (int_of_string k))))
      | ["m"; k] -> Printf.printf "m %s\n" (opt_hex (rimeGetModifierName (z_of_int (int_of_string k))))
      | _ -> print_endline "BADLINE"
    done
  with End_of_file -> ()
