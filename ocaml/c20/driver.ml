(* C20 model runner.  stdin: "<site index> <n> <hex src|-> <hex memory before> <hex memory after (implementation)>"
   stdout: "<hex memory after per model | UB> <oracle on implementation memory: 1|0> <idiom_ok: 1|0>" *)
let () =
  let sites = Array.of_list copy_sites in
  try
    while true do
      let line = input_line stdin in
      match split_ws line with
      | [si; n; src; before; after] ->
        let s = sites.(int_of_string si) in
        let n = nat_of_int (int_of_string n) in
        let src = bytes_of_hex src and before = bytes_of_hex before and after = bytes_of_hex after in
        let m = match run s.site_prog src n before with Some b -> hex_of_bytes b | None -> "UB" in
        let o = if copy_postb src n before after then 1 else 0 in
        Printf.printf "%s %d %d\n" m o (if idiom_ok s.site_prog then 1 else 0)
      | _ -> print_endline "BADLINE"
    done
  with End_of_file -> ()
