// C09 harness: the real rime::Calculus / Projection / Script / Prism behind a line protocol.
//
// stdin, one case per line:   <id> <syllables> <formulas> <queries> <limits>
//   syllables: hex,hex,...   formulas: _ | hex;hex;...   queries: _ | hex,hex,... (- = empty string)
//   limits: int,int,...
// stdout, per case (canonical, no floats, no addresses):
//   <id> LOADFAIL                                    Projection::Load refused a formula (case discarded)
//   <id> THROWS apply=<0|1>                          a calculation threw (regex complexity): case discarded;
//                                                    apply = what Projection::Apply returned (must be 0)
//   <id> FLAGS <K>:<deletion><addition>,...          per calculation, K in X T E D F A
//   <id> SAMPLE <round> <K>|<hexkey>><hexresult>:<type>:<cred>|<hexkey>>~|...
//        the effect of calculation #round alone on every key of the script before that round
//        (Calculation::Apply on a fresh Spelling) - boost::regex is the oracle for the model
//   <id> ROUND <round> <script>                      the script after that round (one-rule Projection)
//   <id> SCRIPT <applied> <script>                   Projection::Apply with all formulas at once
//   <id> STEPWISE same|differs                       whether the rounds one by one give the same script
//   <id> PRISM null=<0|1> n=<num_spellings> nsyl=<num_syllables> alpha=<hex>
//   <id> Q <hexquery> G=<value|-> S=<sid:type:cred:tips,...|-> C=<value:len,...|-> E<limit>=<value:len,...|-> ...
// script = key=syllable:type:cred:tips,...;key=...  in map / vector order.
// Credibility is printed as the exact number of penalties: -n iff the double equals the n-fold
// iterated sum of log(0.5) (for the prism: that sum cast to float); anything else prints as ?<hexfloat>.
#include <rime/algo/algebra.h>
#include <rime/algo/calculus.h>
#include <rime/config.h>
#include <rime/dict/prism.h>
#include <unistd.h>
#include <cstdio>
#include <iostream>
#include <set>
#include <sstream>
#include "../common/rime_env.h"

using namespace rime;
using vh::hex;
using vh::unhex;

static const double kPenalty = -0.6931471805599453;  // calculus.cc:14-15 (internal linkage there)

static std::string hx(const std::string& s) {
  return s.empty() ? "-" : hex(s);
}
static std::string uhx(const std::string& s) {
  return s == "-" ? "" : unhex(s);
}
static std::vector<std::string> split(const std::string& s, char c) {
  std::vector<std::string> r;
  if (s == "_" || s.empty())
    return r;
  std::string cur;
  for (char ch : s) {
    if (ch == c) {
      r.push_back(cur);
      cur.clear();
    } else
      cur += ch;
  }
  r.push_back(cur);
  return r;
}
static std::string cred_units(double c, bool through_float) {
  double f = 0.0;
  for (int n = 0; n <= 200; ++n) {
    double g = through_float ? static_cast<double>(static_cast<float>(f)) : f;
    if (c == g)
      return std::to_string(-n);
    f += kPenalty;
  }
  char buf[64];
  snprintf(buf, sizeof buf, "?%a", c);
  return buf;
}
static char kind_letter(Calculation* x) {
  if (dynamic_cast<Fuzzing*>(x)) return 'F';
  if (dynamic_cast<Abbreviation*>(x)) return 'A';
  if (dynamic_cast<Derivation*>(x)) return 'D';
  if (dynamic_cast<Erasion*>(x)) return 'E';
  if (dynamic_cast<Transformation*>(x)) return 'T';
  if (dynamic_cast<Transliteration*>(x)) return 'X';
  return '?';
}
static std::string show_script(const Script& s) {
  if (s.empty())
    return "-";
  std::string out;
  bool first = true;
  for (const auto& kv : s) {
    if (!first) out += ";";
    first = false;
    out += hx(kv.first) + "=";
    bool f2 = true;
    for (const Spelling& x : kv.second) {
      if (!f2) out += ",";
      f2 = false;
      out += hx(x.str) + ":" + std::to_string(static_cast<int>(x.properties.type)) + ":" +
             cred_units(x.properties.credibility, false) + ":" + hx(x.properties.tips);
    }
  }
  return out;
}
static bool same_script(const Script& a, const Script& b) {
  return show_script(a) == show_script(b);
}
static an<ConfigList> formula_list(const std::vector<std::string>& fs) {
  auto c = New<ConfigList>();
  for (auto& f : fs) c->Append(New<ConfigValue>(f));
  return c;
}
struct PrismX : Prism {
  using Prism::Prism;
  prism::Metadata* md() { return metadata_; }
  bool null_map() { return spelling_map_ == nullptr; }
};
static std::string show_matches(const std::vector<Prism::Match>& m) {
  if (m.empty())
    return "-";
  std::string out;
  for (size_t i = 0; i < m.size(); ++i) {
    if (i) out += ",";
    out += std::to_string(m[i].value) + ":" + std::to_string(m[i].length);
  }
  return out;
}

int main(int argc, char** argv) {
  if (argc < 2) {
    fprintf(stderr, "usage: c09 <workdir> < cases\n");
    return 2;
  }
  std::string work = argv[1];
  vh::mkdirs(work);
  std::string line;
  while (std::getline(std::cin, line)) {
    std::istringstream is(line);
    std::string id, f_syl, f_form, f_q, f_lim;
    if (!(is >> id >> f_syl >> f_form >> f_q >> f_lim))
      continue;
    std::vector<std::string> syls, formulas, queries;
    for (auto& h : split(f_syl, ',')) syls.push_back(uhx(h));
    if (f_form.rfind("M:", 0) != 0)
      for (auto& h : split(f_form, ';')) formulas.push_back(uhx(h));
    for (auto& h : split(f_q, ',')) queries.push_back(uhx(h));
    std::vector<size_t> limits;
    for (auto& h : split(f_lim, ',')) limits.push_back(std::stoul(h));

    // --- dict_compiler.cc:318-327
    Syllabary syllabary(syls.begin(), syls.end());
    Script script;
    bool merge_mode = f_form.rfind("M:", 0) == 0;
    if (merge_mode) {
      // out-of-domain stream: Script::Merge driven directly (all types, tips, repeated syllables)
      //   M:<hexkey>|<type>:<cred>:<hextips>|<hexsyl>:<type>:<cred>:<hextips>,...;...
      for (auto& op : split(f_form.substr(2), ';')) {
        auto parts = split(op, '|');
        if (parts.size() != 3) continue;
        auto mkprops = [](const std::vector<std::string>& f, size_t o) {
          SpellingProperties sp;
          sp.type = static_cast<SpellingType>(std::stoi(f[o]));
          int n = -std::stoi(f[o + 1]);
          for (int i = 0; i < n; ++i) sp.credibility += kPenalty;
          sp.tips = uhx(f[o + 2]);
          return sp;
        };
        SpellingProperties sp = mkprops(split(parts[1], ':'), 0);
        std::vector<Spelling> v;
        for (auto& e : split(parts[2], ',')) {
          auto f = split(e, ':');
          Spelling x(uhx(f[0]));
          x.properties = mkprops(f, 1);
          v.push_back(x);
        }
        script.Merge(uhx(parts[0]), sp, v);
      }
      std::cout << id << " SCRIPT 1 " << show_script(script) << "\n";
    }
    Projection p;
    if (!merge_mode && !p.Load(formula_list(formulas))) {
      std::cout << id << " LOADFAIL\n";
      continue;
    }
    if (!merge_mode)
      for (const auto& x : syllabary) script.AddSyllable(x);

    // --- the rounds one by one: flags, sampled effects, intermediate scripts
    if (!merge_mode) {
      Calculus calc;
      Script cur(script);
      std::string flags;
      std::vector<std::string> later;
      bool thrown = false;
      for (size_t r = 0; r < formulas.size(); ++r) {
        the<Calculation> x(calc.Parse(formulas[r]));
        if (!x) {
          std::cout << id << " LOADFAIL\n";
          break;
        }
        char k = kind_letter(x.get());
        if (r) flags += ",";
        flags += std::string(1, k) + ":" + (x->deletion() ? "1" : "0") + (x->addition() ? "1" : "0");
        std::string sample = std::string(1, k);
        for (const auto& kv : cur) {
          Spelling s(kv.first);
          bool applied = false;
          try {
            applied = x->Apply(&s);
          } catch (std::runtime_error&) {  // boost::regex complexity overflow: outside the modelled domain
            thrown = true;
            break;
          }
          sample += "|" + hx(kv.first) + ">";
          if (!applied)
            sample += "~";
          else
            sample += hx(s.str) + ":" + std::to_string(static_cast<int>(s.properties.type)) + ":" +
                      cred_units(s.properties.credibility, false);
          if (applied && !s.properties.tips.empty()) sample += "!TIPS";
        }
        if (thrown) break;
        later.push_back(id + " SAMPLE " + std::to_string(r) + " " + sample);
        Projection one;
        one.Load(formula_list({formulas[r]}));
        one.Apply(&cur);
        later.push_back(id + " ROUND " + std::to_string(r) + " " + show_script(cur));
      }
      if (thrown) {
        // Projection::Apply catches the exception and reports failure (algebra.cc:131-134)
        bool applied = p.Apply(&script);
        std::cout << id << " THROWS apply=" << (applied ? 1 : 0) << "\n";
        continue;
      }
      std::cout << id << " FLAGS " << (flags.empty() ? "-" : flags) << "\n";
      for (auto& l : later) std::cout << l << "\n";
      bool applied = p.Apply(&script);
      std::cout << id << " SCRIPT " << (applied ? 1 : 0) << " " << show_script(script) << "\n";
      std::cout << id << " STEPWISE " << (same_script(cur, script) ? "same" : "differs") << "\n";
      if (!applied) script.clear();
    }

    // --- dict_compiler.cc:356-363: build, save; then load into a fresh object
    std::string file = work + "/" + id + ".prism.bin";
    {
      Prism b{path(file)};
      b.Remove();
      if (!b.Build(syllabary, script.empty() ? nullptr : &script, 0, 0) || !b.Save()) {
        std::cout << id << " PRISM buildfail\n";
        continue;
      }
    }
    PrismX q{path(file)};
    if (!q.Load()) {
      std::cout << id << " PRISM loadfail\n";
      continue;
    }
    std::cout << id << " PRISM null=" << (q.null_map() ? 1 : 0) << " n=" << q.md()->num_spellings
              << " nsyl=" << q.md()->num_syllables << " alpha="
              << hx(std::string(q.md()->alphabet, strnlen(q.md()->alphabet, 256))) << "\n";
    // queries: the given ones + every spelling, every prefix of every spelling (the empty string
    // included) and one one-byte extension of every spelling
    std::set<std::string> qset(queries.begin(), queries.end());
    {
      std::vector<std::string> keys;
      if (script.empty())
        keys.assign(syllabary.begin(), syllabary.end());
      else
        for (const auto& kv : script) keys.push_back(kv.first);
      std::string alpha(q.md()->alphabet, strnlen(q.md()->alphabet, 256));
      size_t n = 0;
      for (const auto& k : keys) {
        for (size_t i = 0; i <= k.size(); ++i) qset.insert(k.substr(0, i));
        if (!alpha.empty()) qset.insert(k + alpha[(n++ * 7 + k.size()) % alpha.size()]);
      }
    }
    for (const auto& key : qset) {
      std::cout << id << " Q " << hx(key);
      int v = -1;
      bool has = q.GetValue(key, &v);
      std::cout << " G=" << (has ? std::to_string(v) : "-") << " S=";
      if (!has) {
        std::cout << "-";
      } else {
        SpellingAccessor a(q.QuerySpelling(v));
        bool first = true;
        int guard = 0;
        while (!a.exhausted() && guard++ < 10000) {
          SyllableId sid = a.syllable_id();
          SpellingProperties pr = a.properties();
          std::cout << (first ? "" : ",") << sid << ":" << static_cast<int>(pr.type) << ":"
                    << cred_units(pr.credibility, true) << ":" << hx(pr.tips);
          first = false;
          a.Next();
        }
        if (first) std::cout << "-";
      }
      {
        std::vector<Prism::Match> m;
        q.CommonPrefixSearch(key, &m);
        std::cout << " C=" << show_matches(m);
      }
      for (size_t lim : limits) {
        std::vector<Prism::Match> m;
        q.ExpandSearch(key, &m, lim);
        std::cout << " E" << lim << "=" << show_matches(m);
      }
      std::cout << "\n";
    }
    q.Close();
    unlink(file.c_str());
  }
  return 0;
}
