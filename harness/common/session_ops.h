// Shared op executor for the session-level harnesses (C16, C01): executes one
// textual op on a real session id through the public C API and returns a
// canonical observation string.  Everything handed out by the API is freed.
#pragma once
#include "rime_env.h"
#include <sstream>

namespace vh {

inline std::string esc(const char* s) {
  if (!s) return "NULL";
  std::string o = "\"";
  for (const unsigned char* p = (const unsigned char*)s; *p; ++p) {
    if (*p == '|' || *p == '\\' || *p == '"' || *p < 0x20) {
      char b[8];
      snprintf(b, sizeof b, "\\x%02x", *p);
      o += b;
    } else {
      o += (char)*p;
    }
  }
  return o + "\"";
}

inline std::string fmt_context(RimeApi* api, RimeSessionId id, bool free_twice = false) {
  std::ostringstream obs;
  RIME_STRUCT(RimeContext, c);
  Bool r = api->get_context(id, &c);
  obs << "ret " << (r ? 1 : 0);
  if (r) {
    obs << " comp " << c.composition.length << "," << c.composition.cursor_pos << "," << c.composition.sel_start << ","
        << c.composition.sel_end << "," << esc(c.composition.preedit) << " menu " << c.menu.page_size << ","
        << c.menu.page_no << "," << (c.menu.is_last_page ? 1 : 0) << "," << c.menu.highlighted_candidate_index << ","
        << c.menu.num_candidates << "," << esc(c.menu.select_keys) << " [";
    for (int i = 0; i < c.menu.num_candidates; ++i)
      obs << esc(c.menu.candidates[i].text) << ":" << esc(c.menu.candidates[i].comment) << " ";
    obs << "] preview " << esc(c.commit_text_preview);
  }
  api->free_context(&c);
  if (free_twice) api->free_context(&c);  // must be harmless on a cleared struct
  return obs.str();
}

// returns false if the op is unknown
inline bool exec_op(RimeApi* api, RimeSessionId id, const std::string& op, std::istringstream& ls, std::ostringstream& obs) {
  if (op == "key") {
    long long code, mask;
    ls >> code >> mask;
    obs << "ret " << (api->process_key(id, (int)code, (int)mask) ? 1 : 0);
  } else if (op == "simulate") {
    std::string seq;
    ls >> seq;
    obs << "ret " << (api->simulate_key_sequence(id, seq.c_str()) ? 1 : 0);
  } else if (op == "select" || op == "select_on_page" || op == "highlight" || op == "highlight_on_page" ||
             op == "delete" || op == "delete_on_page") {
    unsigned long long i;
    ls >> i;
    Bool r = op == "select"              ? api->select_candidate(id, (size_t)i)
             : op == "select_on_page"    ? api->select_candidate_on_current_page(id, (size_t)i)
             : op == "highlight"         ? api->highlight_candidate(id, (size_t)i)
             : op == "highlight_on_page" ? api->highlight_candidate_on_current_page(id, (size_t)i)
             : op == "delete"            ? api->delete_candidate(id, (size_t)i)
                                         : api->delete_candidate_on_current_page(id, (size_t)i);
    obs << "ret " << (r ? 1 : 0);
  } else if (op == "page") {
    int back;
    ls >> back;
    obs << "ret " << (api->change_page(id, back) ? 1 : 0);
  } else if (op == "commit") {
    obs << "ret " << (api->commit_composition(id) ? 1 : 0);
  } else if (op == "clear") {
    api->clear_composition(id);
    obs << "unit";
  } else if (op == "get_commit" || op == "get_commit_free2") {
    RIME_STRUCT(RimeCommit, c);
    Bool r = api->get_commit(id, &c);
    obs << "ret " << (r ? 1 : 0) << " text " << esc(c.text);
    api->free_commit(&c);
    if (op == "get_commit_free2") api->free_commit(&c);
  } else if (op == "get_context") {
    obs << fmt_context(api, id, false);
  } else if (op == "get_context_free2") {
    obs << fmt_context(api, id, true);
  } else if (op == "get_status" || op == "get_status_free2") {
    RIME_STRUCT(RimeStatus, st);
    Bool r = api->get_status(id, &st);
    obs << "ret " << (r ? 1 : 0);
    if (r) {
      obs << " " << esc(st.schema_id) << " " << esc(st.schema_name) << " flags " << !!st.is_disabled << !!st.is_composing
          << !!st.is_ascii_mode << !!st.is_full_shape << !!st.is_simplified << !!st.is_traditional << !!st.is_ascii_punct;
    }
    api->free_status(&st);
    if (op == "get_status_free2") api->free_status(&st);
  } else if (op == "set_option") {
    std::string name;
    int v;
    ls >> name >> v;
    api->set_option(id, name.c_str(), v);
    obs << "unit";
  } else if (op == "get_option") {
    std::string name;
    ls >> name;
    obs << "ret " << (api->get_option(id, name.c_str()) ? 1 : 0);
  } else if (op == "set_property") {
    std::string name, v;
    ls >> name >> v;
    api->set_property(id, name.c_str(), v.c_str());
    obs << "unit";
  } else if (op == "get_property") {
    std::string name;
    ls >> name;
    char buf[256];
    memset(buf, 0, sizeof buf);
    Bool r = api->get_property(id, name.c_str(), buf, sizeof buf);
    obs << "ret " << (r ? 1 : 0) << " " << esc(r ? buf : nullptr);
  } else if (op == "select_schema") {
    std::string sid;
    ls >> sid;
    obs << "ret " << (api->select_schema(id, sid.c_str()) ? 1 : 0);
  } else if (op == "get_schema") {
    char buf[256];
    memset(buf, 0, sizeof buf);
    Bool r = api->get_current_schema(id, buf, sizeof buf);
    obs << "ret " << (r ? 1 : 0) << " " << esc(r ? buf : nullptr);
  } else if (op == "set_input") {
    std::string v;
    ls >> v;
    if (v == "-") v = "";
    obs << "ret " << (api->set_input(id, unhex(v).c_str()) ? 1 : 0);
  } else if (op == "get_input") {
    obs << esc(api->get_input(id)) << " caret " << api->get_caret_pos(id);
  } else if (op == "set_caret") {
    unsigned long long p;
    ls >> p;
    api->set_caret_pos(id, (size_t)p);
    obs << "unit";
  } else if (op == "list") {  // candidate_list_from_index <index> <max>
    unsigned long long from;
    int maxn;
    ls >> from >> maxn;
    RimeCandidateListIterator it = {0};
    Bool r = api->candidate_list_from_index(id, &it, (int)from);
    obs << "ret " << (r ? 1 : 0) << " [";
    int n = 0;
    if (r) {
      while (n < maxn && api->candidate_list_next(&it)) {
        obs << esc(it.candidate.text) << " ";
        ++n;
      }
      api->candidate_list_end(&it);
    }
    obs << "]";
  } else if (op == "state_label") {
    std::string name;
    int st;
    ls >> name >> st;
    obs << esc(api->get_state_label(id, name.c_str(), st));
    RimeStringSlice sl = api->get_state_label_abbreviated(id, name.c_str(), st, True);
    obs << " abbr " << sl.length;
  } else {
    return false;
  }
  return true;
}

}  // namespace vh
