// Shared helpers for the /verif C++ harnesses (real librime behind the public C API).
#pragma once
#include <rime_api.h>
#include <sys/stat.h>
#include <cstdio>
#include <cstdlib>
#include <cstring>
#include <fstream>
#include <string>
#include <vector>

namespace vh {

inline void mkdirs(const std::string& p) {
  std::string cur;
  for (size_t i = 0; i <= p.size(); ++i) {
    if (i == p.size() || p[i] == '/') {
      if (!cur.empty()) mkdir(cur.c_str(), 0755);
    }
    if (i < p.size()) cur += p[i];
  }
}

inline void write_file(const std::string& path, const std::string& content) {
  std::ofstream f(path, std::ios::binary | std::ios::trunc);
  f << content;
}

inline std::string hex(const unsigned char* p, size_t n) {
  static const char* d = "0123456789abcdef";
  std::string s;
  s.reserve(2 * n);
  for (size_t i = 0; i < n; ++i) {
    s += d[p[i] >> 4];
    s += d[p[i] & 15];
  }
  return s;
}
inline std::string hex(const std::string& s) {
  return hex(reinterpret_cast<const unsigned char*>(s.data()), s.size());
}
inline std::string unhex(const std::string& h) {
  std::string s;
  for (size_t i = 0; i + 1 < h.size(); i += 2)
    s += static_cast<char>(std::stoi(h.substr(i, 2), nullptr, 16));
  return s;
}

struct Env {
  RimeApi* api = nullptr;
  std::string shared_dir, user_dir;
  // start librime on (shared, user); deploy synchronously when asked
  bool start(const std::string& shared, const std::string& user, bool deploy) {
    shared_dir = shared;
    user_dir = user;
    mkdirs(shared);
    mkdirs(user);
    api = rime_get_api();
    RIME_STRUCT(RimeTraits, traits);
    traits.shared_data_dir = shared_dir.c_str();
    traits.user_data_dir = user_dir.c_str();
    traits.distribution_name = "verif";
    traits.distribution_code_name = "verif";
    traits.distribution_version = "0";
    traits.app_name = "rime.verif";
    traits.min_log_level = 3;
    traits.log_dir = "";
    api->setup(&traits);
    api->initialize(&traits);
    if (deploy) {
      if (!api->start_maintenance(True)) return false;
      api->join_maintenance_thread();
    }
    return true;
  }
  // like start(), but with an explicit (possibly shared, read-only) staging dir and no deployment
  bool start_with_staging(const std::string& shared, const std::string& user, const std::string& staging) {
    shared_dir = shared;
    user_dir = user;
    staging_dir = staging;
    mkdirs(user);
    api = rime_get_api();
    RIME_STRUCT(RimeTraits, traits);
    traits.shared_data_dir = shared_dir.c_str();
    traits.user_data_dir = user_dir.c_str();
    traits.staging_dir = staging_dir.c_str();
    traits.prebuilt_data_dir = staging_dir.c_str();
    traits.distribution_name = "verif";
    traits.distribution_code_name = "verif";
    traits.distribution_version = "0";
    traits.app_name = "rime.verif";
    traits.min_log_level = 3;
    traits.log_dir = "";
    api->setup(&traits);
    api->initialize(&traits);
    return true;
  }
  std::string staging_dir;
  void stop() { api->finalize(); }
};

}  // namespace vh
