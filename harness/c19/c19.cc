// C19 harness: the real KeyEvent / KeySequence / RimeGet* code of /repo's working tree
// (compiled from src/rime/key_event.cc + src/rime/key_table.cc only, ASan+UBSan).
// Protocol: see ocaml/c19/driver.ml.  One observation per input line.
#include <rime/key_event.h>
#include <rime/key_table.h>
#include <cstdio>
#include <cstdlib>
#include <iostream>
#include <sstream>
#include <string>
#include <vector>

static std::string hex(const std::string& s) {
  static const char* d = "0123456789abcdef";
  if (s.empty()) return "-";
  std::string o;
  o.reserve(2 * s.size());
  for (unsigned char c : s) {
    o += d[c >> 4];
    o += d[c & 15];
  }
  return o;
}
static std::string unhex(const std::string& h) {
  std::string s;
  if (h == "-") return s;
  for (size_t i = 0; i + 1 < h.size(); i += 2)
    s += static_cast<char>(std::stoi(h.substr(i, 2), nullptr, 16));
  return s;
}
static std::string events(const rime::KeySequence& q) {
  std::string o = std::to_string(q.size());
  for (const auto& e : q) o += " " + std::to_string(e.keycode()) + " " + std::to_string(e.modifier());
  return o;
}

int main() {
  FLAGS_minloglevel = 4;  // parse errors are logged at ERROR: keep them off stderr
  FLAGS_logtostderr = true;
  std::ios::sync_with_stdio(false);
  std::string line;
  std::string out;
  while (std::getline(std::cin, line)) {
    std::istringstream in(line);
    std::string op;
    in >> op;
    out.clear();
    if (op == "K") {
      long k, m;
      in >> k >> m;
      rime::KeyEvent e(static_cast<int>(k), static_cast<int>(m));
      std::string r = e.repr();
      rime::KeyEvent p;
      bool ok = p.Parse(r);
      out = "K " + hex(r) + " " + (ok ? "1 " : "0 ") + std::to_string(p.keycode()) + " " + std::to_string(p.modifier());
    } else if (op == "P") {
      std::string h;
      in >> h;
      rime::KeyEvent p;
      bool ok = p.Parse(unhex(h));
      out = std::string("P ") + (ok ? "1 " : "0 ") + std::to_string(p.keycode()) + " " + std::to_string(p.modifier()) +
            " " + hex(p.repr());
    } else if (op == "S") {
      size_t n;
      in >> n;
      rime::KeySequence s;
      for (size_t i = 0; i < n; ++i) {
        long k, m;
        in >> k >> m;
        s.push_back(rime::KeyEvent(static_cast<int>(k), static_cast<int>(m)));
      }
      std::string r = s.repr();
      rime::KeySequence q;
      bool ok = q.Parse(r);
      out = "S " + hex(r) + " " + (ok ? "1 " : "0 ") + events(q);
    } else if (op == "Q") {
      std::string h;
      in >> h;
      rime::KeySequence q;
      bool ok = q.Parse(unhex(h));
      out = std::string("Q ") + (ok ? "1 " : "0 ") + events(q) + " " + hex(q.repr());
    } else if (op == "N") {
      std::string h;
      in >> h;
      out = "N " + std::to_string(RimeGetKeycodeByName(unhex(h).c_str()));
    } else if (op == "M") {
      std::string h;
      in >> h;
      out = "M " + std::to_string(RimeGetModifierByName(unhex(h).c_str()));
    } else if (op == "n") {
      long k;
      in >> k;
      const char* nm = RimeGetKeyName(static_cast<int>(k));
      out = std::string("n ") + (nm ? hex(nm) : "NULL");
    } else if (op == "m") {
      long k;
      in >> k;
      const char* nm = RimeGetModifierName(static_cast<int>(k));
      out = std::string("m ") + (nm ? hex(nm) : "NULL");
    } else {
      out = "BADLINE";
    }
    out += "\n";
    fputs(out.c_str(), stdout);
  }
  fflush(stdout);
  return 0;
}
