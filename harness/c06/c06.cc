// C06 harness: the real rime::DictCompiler / Table / ReverseDb on generated *.dict.yaml sources.
//
// usage: c06 <manifest>     manifest: one case directory per line.
// A case directory holds the generated <name>.dict.yaml files and case.txt:
//   line 1: name of the main dictionary
//   line 2: Q <n> <code: syllable hex joined by '.'>*      codes to query with Table::QueryPhrases
//   line 3: R <n> <text hex>*                              texts to look up in the ReverseDb
// `c06 --img-only <manifest>` only reports S, N and the string image size of each case.
// Every case runs in forked children (a build that outgrows its file estimate is
// undefined behaviour and usually dies under ASan): child 1 compiles with the real
// DictCompiler, loads the result and prints the enumeration (the walk of
// tools/rime_table_decompiler.cc), the queries and the reverse lookups; child 2
// repeats Table::Build on the same collected entries through a subclass that can
// read MappedFile::capacity(), to observe the size estimate the code computed.
// Canonical output only: no addresses, no log text, floats as bit patterns.
#include <glog/logging.h>
#include <sys/wait.h>
#include <unistd.h>
#include <cfloat>
#include <cmath>
#include <cstdint>
#include <cstdio>
#include <cstring>
#include <filesystem>
#include <fstream>
#include <functional>
#include <iostream>
#include <sstream>
#include <rime/service.h>
#include <rime/deployer.h>
#include <rime/dict/dict_compiler.h>
#include <rime/dict/dict_settings.h>
#include <rime/dict/dictionary.h>
#include <rime/dict/entry_collector.h>
#include <rime/dict/prism.h>
#include <rime/dict/reverse_lookup_dictionary.h>
#include <rime/dict/table.h>
#include "../common/rime_env.h"

using namespace rime;

static std::vector<std::string> split(const std::string& s, char d) {
  std::vector<std::string> r;
  std::string cur;
  for (char c : s) {
    if (c == d) {
      r.push_back(cur);
      cur.clear();
    } else {
      cur += c;
    }
  }
  r.push_back(cur);
  return r;
}

static std::string ids_str(const Code& code) {
  if (code.empty())
    return "-";
  std::string s;
  for (size_t i = 0; i < code.size(); ++i) {
    if (i)
      s += ".";
    s += std::to_string(code[i]);
  }
  return s;
}

static std::string hexs(const std::string& s) {
  return s.empty() ? "-" : vh::hex(s);
}

static void print_accessor(Table* table, TableAccessor a, const std::string& tag) {
  while (!a.exhausted()) {
    float w = a.entry()->weight;
    uint32_t bits;
    std::memcpy(&bits, &w, 4);
    printf("%s %s %s %08x\n", tag.c_str(), hexs(table->GetEntryText(*a.entry())).c_str(),
           ids_str(a.code()).c_str(), bits);
    a.Next();
  }
}

// tools/rime_table_decompiler.cc: recursion()
static void recursion(Table* table, TableQuery* query) {
  for (int i = 0; i < (int)table->metadata()->num_syllables; i++) {
    auto accessor = query->Access(i);
    print_accessor(table, accessor, "ent");
    if (query->Advance(i)) {
      if (query->level() < 3) {
        recursion(table, query);
      } else {
        auto accessor = query->Access(0);
        print_accessor(table, accessor, "ent");
      }
      query->Backdate();
    }
  }
}

static bool g_img_only = false;

struct Case {
  std::string dir, name;
  std::vector<std::vector<std::string>> queries;
  std::vector<std::string> revs;
};

static bool read_case(const std::string& dir, Case* c) {
  c->dir = dir;
  std::ifstream f(dir + "/case.txt");
  std::string l1, l2, l3;
  if (!getline(f, l1) || !getline(f, l2) || !getline(f, l3))
    return false;
  c->name = l1;
  auto q = split(l2, ' ');
  for (size_t i = 2; i < q.size(); ++i) {
    std::vector<std::string> code;
    if (q[i] != "-")
      for (auto& s : split(q[i], '.'))
        code.push_back(vh::unhex(s));
    c->queries.push_back(code);
  }
  auto r = split(l3, ' ');
  for (size_t i = 2; i < r.size(); ++i)
    c->revs.push_back(r[i] == "-" ? std::string() : vh::unhex(r[i]));
  return true;
}

static void set_dirs(const Case& c) {
  auto& d = Service::instance().deployer();
  d.shared_data_dir = path(c.dir);
  d.user_data_dir = path(c.dir);
  d.prebuilt_data_dir = path(c.dir + "/prebuilt");
  d.staging_dir = path(c.dir + "/build");
  std::filesystem::create_directories(c.dir + "/build");
}

// child 1: the real compiler, then load and observe
static int run_main(const Case& c) {
  set_dirs(c);
  std::string table_path = c.dir + "/build/" + c.name + ".table.bin";
  std::string prism_path = c.dir + "/build/" + c.name + ".prism.bin";
  std::string reverse_path = c.dir + "/build/" + c.name + ".reverse.bin";
  bool compiled;
  {
    Dictionary dict(c.name, {}, {New<Table>(path(table_path))}, New<Prism>(path(prism_path)));
    DictCompiler compiler(&dict);
    compiler.set_options(DictCompiler::kRebuild);
    compiled = compiler.Compile(path());
  }
  Table table{path(table_path)};
  bool loaded = std::filesystem::exists(table_path) && table.Load();
  if (!loaded) {
    printf("hdr compile=%d load=0\n", compiled ? 1 : 0);
    return 0;
  }
  auto* md = table.metadata();
  printf("hdr compile=%d load=1 S=%u N=%u size=%zu strtab=%u\n", compiled ? 1 : 0, md->num_syllables,
         md->num_entries, (size_t)std::filesystem::file_size(table_path), md->string_table_size);
  for (uint32_t i = 0; i < md->num_syllables; ++i)
    printf("syl %s\n", hexs(table.GetSyllableById((int)i)).c_str());
  {
    TableQuery query(md->index.get());
    recursion(&table, &query);
  }
  // syllable -> id through the loaded syllabary
  std::map<std::string, int> ids;
  for (uint32_t i = 0; i < md->num_syllables; ++i)
    ids[table.GetSyllableById((int)i)] = (int)i;
  for (size_t qi = 0; qi < c.queries.size(); ++qi) {
    Code code;
    bool known = true;
    for (auto& s : c.queries[qi]) {
      auto it = ids.find(s);
      if (it == ids.end()) {
        known = false;
        break;
      }
      code.push_back(it->second);
    }
    if (!known) {
      printf("qry %zu unknown-syllable\n", qi);
      continue;
    }
    TableAccessor a = table.QueryPhrases(code);
    printf("qry %zu %zu\n", qi, a.remaining());
    print_accessor(&table, a, "qent " + std::to_string(qi));
  }
  ReverseDb db{path(reverse_path)};
  bool rev_loaded = std::filesystem::exists(reverse_path) && db.Load();
  for (size_t ri = 0; ri < c.revs.size(); ++ri) {
    std::string result;
    if (rev_loaded && db.Lookup(c.revs[ri], &result))
      printf("rev %zu %s\n", ri, hexs(result).c_str());
    else
      printf("rev %zu none\n", ri);
  }
  printf("revdb loaded=%d\n", rev_loaded ? 1 : 0);
  return 0;
}

class ProbeTable : public Table {
 public:
  using Table::Table;
  size_t cap() const { return capacity(); }
};

// child 2: Table::Build on the same collected entries, to read the capacity it chose
static int run_probe(const Case& c) {
  set_dirs(c);
  DictSettings settings;
  auto dict_file = path(c.dir + "/" + c.name + ".dict.yaml");
  {
    std::ifstream fin(dict_file.c_str());
    if (!settings.LoadDictHeader(fin)) {
      printf("probe header=0\n");
      return 0;
    }
  }
  vector<path> dict_files;
  if (auto tables = settings.GetTables())
    for (auto it = tables->begin(); it != tables->end(); ++it)
      dict_files.push_back(path(c.dir + "/" + As<ConfigValue>(*it)->str() + ".dict.yaml"));
  EntryCollector collector;
  collector.Configure(&settings);
  collector.Collect(dict_files);
  Vocabulary vocabulary;
  map<string, SyllableId> syllable_to_id;
  SyllableId syllable_id = 0;
  for (const auto& s : collector.syllabary)
    syllable_to_id[s] = syllable_id++;
  for (const auto& r : collector.entries) {
    Code code;
    for (const auto& s : r->raw_code)
      code.push_back(syllable_to_id[s]);
    auto ls = vocabulary.LocateEntries(code);
    if (!ls)
      continue;
    auto e = New<ShortDictEntry>();
    e->code.swap(code);
    e->text = r->text;
    e->weight = log(r->weight > 0 ? r->weight : DBL_EPSILON);
    ls->push_back(e);
  }
  if (settings.sort_order() != "original")
    vocabulary.SortHomophones();
  // the string image Table::Build will need: same keys, weights and order of insertion
  size_t img = 0;
  {
    StringTableBuilder stb;
    for (const auto& s : collector.syllabary)
      stb.Add(s, 0.0);
    std::function<void(const Vocabulary&)> walk = [&](const Vocabulary& v) {
      for (const auto& kv : v) {
        for (const auto& e : kv.second.entries)
          stb.Add(e->text, e->weight);
        if (kv.second.next_level)
          walk(*kv.second.next_level);
      }
    };
    walk(vocabulary);
    stb.Build();
    img = stb.BinarySize();
  }
  printf("probe S=%zu N=%zu img=%zu\n", collector.syllabary.size(), collector.num_entries, img);
  fflush(stdout);
  if (g_img_only)
    return 0;
  ProbeTable table{path(c.dir + "/build/probe.table.bin")};
  table.Remove();
  bool ok = table.Build(collector.syllabary, vocabulary, collector.num_entries, 0);
  printf("probe build=%d cap=%zu used=%zu\n", ok ? 1 : 0, table.cap(), table.file_size());
  return 0;
}

static int in_child(int (*fn)(const Case&), const Case& c, const char* errname) {
  fflush(stdout);
  pid_t pid = fork();
  if (pid == 0) {
    std::string errfile = c.dir + "/" + errname;
    if (freopen(errfile.c_str(), "w", stderr))
      setvbuf(stderr, nullptr, _IONBF, 0);  // the child leaves through _exit
    int rc = fn(c);
    fflush(stdout);
    _exit(rc);
  }
  int status = 0;
  waitpid(pid, &status, 0);
  if (WIFEXITED(status))
    return WEXITSTATUS(status);
  return 128 + (WIFSIGNALED(status) ? WTERMSIG(status) : 0);
}

int main(int argc, char** argv) {
  if (argc < 2) {
    fprintf(stderr, "usage: c06 <manifest>\n");
    return 2;
  }
  FLAGS_minloglevel = 2;  // errors only, to the per-case stderr file
  FLAGS_logtostderr = true;
  int argi = 1;
  if (std::string(argv[1]) == "--img-only" && argc > 2) {
    g_img_only = true;
    argi = 2;
  }
  std::ifstream mf(argv[argi]);
  std::string dir;
  int k = 0;
  while (getline(mf, dir)) {
    if (dir.empty())
      continue;
    Case c;
    if (!read_case(dir, &c)) {
      printf("case %d badcase\n", k++);
      continue;
    }
    printf("case %d begin\n", k);
    int rc = 0;
    if (!g_img_only) {
      rc = in_child(run_main, c, "stderr.main.txt");
      printf("case %d main-exit=%d\n", k, rc);
    }
    rc = in_child(run_probe, c, "stderr.probe.txt");
    printf("case %d probe-exit=%d\n", k, rc);
    fflush(stdout);
    ++k;
  }
  return 0;
}
