// LD_PRELOAD interposer for the C11 check: every file-system mutation the
// process issues on a user db directory (a path containing ".userdb") is a kill
// point.  The process is killed (_exit(137)) at kill point number $VERIF_KILL_AT
// (counting from 0) *before* the call is carried out; with $VERIF_KILL_TORN=1 a
// write/pwrite at the kill point first writes the first half of its buffer (a
// torn write).  The number of kill points passed is written to the file named
// by $VERIF_KILL_COUNT at exit, together with a histogram per call name.
//
// Interposed: write, pwrite, pwrite64, fsync, fdatasync, rename, unlink, ftruncate,
// ftruncate64.
#define _GNU_SOURCE
#include <dlfcn.h>
#include <fcntl.h>
#include <stdio.h>
#include <stdlib.h>
#include <string.h>
#include <sys/types.h>
#include <unistd.h>

static long g_count = 0;
static long g_kill_at = -2;
static int g_torn = 0;
enum { K_WRITE, K_PWRITE, K_FSYNC, K_FDATASYNC, K_RENAME, K_UNLINK, K_FTRUNCATE, K_N };
static long g_hist[K_N];
static const char* g_names[K_N] = {"write", "pwrite", "fsync", "fdatasync", "rename", "unlink", "ftruncate"};

static void init(void) {
  if (g_kill_at != -2)
    return;
  const char* s = getenv("VERIF_KILL_AT");
  g_kill_at = s && *s ? atol(s) : -1;
  const char* t = getenv("VERIF_KILL_TORN");
  g_torn = t && *t == '1';
}

static int is_userdb_path(const char* p) {
  return p && strstr(p, ".userdb") != NULL;
}

static int is_userdb_fd(int fd) {
  char link[64], path[4096];
  snprintf(link, sizeof link, "/proc/self/fd/%d", fd);
  ssize_t n = readlink(link, path, sizeof path - 1);
  if (n <= 0)
    return 0;
  path[n] = 0;
  return is_userdb_path(path);
}

__attribute__((destructor)) static void report(void) {
  const char* out = getenv("VERIF_KILL_COUNT");
  if (!out || !*out)
    return;
  FILE* f = fopen(out, "w");
  if (!f)
    return;
  fprintf(f, "%ld", g_count);
  for (int i = 0; i < K_N; ++i)
    fprintf(f, " %s=%ld", g_names[i], g_hist[i]);
  fprintf(f, "\n");
  fclose(f);
}

// returns 1 when the process must die at this kill point
static int kill_point(int kind) {
  init();
  g_hist[kind]++;
  return g_count++ == g_kill_at;
}

typedef ssize_t (*write_fn)(int, const void*, size_t);
typedef ssize_t (*pwrite_fn)(int, const void*, size_t, off_t);

ssize_t write(int fd, const void* buf, size_t n) {
  static write_fn real;
  if (!real)
    real = (write_fn)dlsym(RTLD_NEXT, "write");
  if (is_userdb_fd(fd) && kill_point(K_WRITE)) {
    if (g_torn && n > 1)
      real(fd, buf, n / 2);
    _exit(137);
  }
  return real(fd, buf, n);
}

ssize_t pwrite(int fd, const void* buf, size_t n, off_t off) {
  static pwrite_fn real;
  if (!real)
    real = (pwrite_fn)dlsym(RTLD_NEXT, "pwrite");
  if (is_userdb_fd(fd) && kill_point(K_PWRITE)) {
    if (g_torn && n > 1)
      real(fd, buf, n / 2, off);
    _exit(137);
  }
  return real(fd, buf, n, off);
}

ssize_t pwrite64(int fd, const void* buf, size_t n, off_t off) {
  static pwrite_fn real;
  if (!real)
    real = (pwrite_fn)dlsym(RTLD_NEXT, "pwrite64");
  if (is_userdb_fd(fd) && kill_point(K_PWRITE)) {
    if (g_torn && n > 1)
      real(fd, buf, n / 2, off);
    _exit(137);
  }
  return real(fd, buf, n, off);
}

int fsync(int fd) {
  static int (*real)(int);
  if (!real)
    real = (int (*)(int))dlsym(RTLD_NEXT, "fsync");
  if (is_userdb_fd(fd) && kill_point(K_FSYNC))
    _exit(137);
  return real(fd);
}

int fdatasync(int fd) {
  static int (*real)(int);
  if (!real)
    real = (int (*)(int))dlsym(RTLD_NEXT, "fdatasync");
  if (is_userdb_fd(fd) && kill_point(K_FDATASYNC))
    _exit(137);
  return real(fd);
}

int rename(const char* from, const char* to) {
  static int (*real)(const char*, const char*);
  if (!real)
    real = (int (*)(const char*, const char*))dlsym(RTLD_NEXT, "rename");
  if ((is_userdb_path(from) || is_userdb_path(to)) && kill_point(K_RENAME))
    _exit(137);
  return real(from, to);
}

int unlink(const char* path) {
  static int (*real)(const char*);
  if (!real)
    real = (int (*)(const char*))dlsym(RTLD_NEXT, "unlink");
  if (is_userdb_path(path) && kill_point(K_UNLINK))
    _exit(137);
  return real(path);
}

int ftruncate(int fd, off_t len) {
  static int (*real)(int, off_t);
  if (!real)
    real = (int (*)(int, off_t))dlsym(RTLD_NEXT, "ftruncate");
  if (is_userdb_fd(fd) && kill_point(K_FTRUNCATE))
    _exit(137);
  return real(fd, len);
}

int ftruncate64(int fd, off_t len) {
  static int (*real)(int, off_t);
  if (!real)
    real = (int (*)(int, off_t))dlsym(RTLD_NEXT, "ftruncate64");
  if (is_userdb_fd(fd) && kill_point(K_FTRUNCATE))
    _exit(137);
  return real(fd, len);
}
