// C10/C11 harness: drives the real librime (hook build) through the public API
// with a typing history, or reopens/dumps user dictionaries in a fresh process.
//
//   udbl run  <shared_dir> <user_dir> <script>     one command per line, see below
//   udbl dump <shared_dir> <user_dir> <dict>...    UserDictionary::Load (with the
//             built-in recovery when Open fails), then a raw scan of every record
//
// The wall clock seen by librime is a fake clock owned by this program (time()).
//
// script commands (sid = small integer chosen by the script):
//   S sid schema     create session, select schema
//   K sid keys       simulate_key_sequence
//   P sid r          select candidate number r mod min(count, 12) of the current menu
//   Q sid r          select the r-th candidate (mod their number, among the first 1500) that does
//                    NOT cover the whole input - a partial selection
//   X sid r          delete candidate number r mod min(count, 12)
//   Y sid            delete the first candidate (among the first 100) whose text is the text this session committed last
//   F sid            press space until nothing is being composed (at most 8 times)
//   C sid            commit_composition
//   R sid            clear_composition
//   L sid input      type `input`, print the candidate list, clear the composition
//   T secs           advance the fake clock
//   D sid            destroy session
//   Z dict...        (no session alive) raw dump of the named user dbs
//   !                the process is killed here: _exit(137), no destructor runs, nothing is flushed, no mark in the log
//                    (C11: kill at a command boundary)
#include <unistd.h>
#include <rime_api.h>
#include <rime/common.h>
#include <rime/deployer.h>
#include <rime/service.h>
#include <rime/candidate.h>
#include <rime/composition.h>
#include <rime/context.h>
#include <rime/menu.h>
#include <rime/dict/db.h>
#include <rime/dict/user_db.h>
#include <rime/dict/user_dictionary.h>
#include <cstdio>
#include <cstdlib>
#include <cstring>
#include <ctime>
#include <algorithm>
#include <fstream>
#include <map>
#include <sstream>
#include <string>
#include <vector>

static time_t g_clock = 1000000;
extern "C" time_t time(time_t* t) {
  if (t)
    *t = g_clock;
  return g_clock;
}

static std::string hex(const std::string& s) {
  static const char* d = "0123456789abcdef";
  if (s.empty())
    return "-";
  std::string r;
  for (unsigned char c : s) {
    r += d[c >> 4];
    r += d[c & 15];
  }
  return r;
}

static RimeApi* api;

// command boundaries are marked in the hook log so that log lines can be
// attributed to script commands
static void mark(int index) {
  const char* path = getenv("VERIF_DBLOG");
  if (!path || !*path)
    return;
  FILE* f = fopen(path, "a");
  if (!f)
    return;
  fprintf(f, "M\t%d\n", index);
  fclose(f);
}

static void start(const char* shared, const char* user) {
  api = rime_get_api();
  RIME_STRUCT(RimeTraits, traits);
  traits.shared_data_dir = shared;
  traits.user_data_dir = user;
  traits.distribution_name = "verif";
  traits.distribution_code_name = "verif";
  traits.distribution_version = "0";
  traits.app_name = "rime.verif";
  traits.min_log_level = 3;
  traits.log_dir = "";
  api->setup(&traits);
  api->initialize(&traits);
}

static std::vector<std::string> candidates(RimeSessionId s, size_t limit) {
  std::vector<std::string> r;
  RimeCandidateListIterator it;
  if (api->candidate_list_begin(s, &it)) {
    while (r.size() < limit && api->candidate_list_next(&it))
      r.push_back(it.candidate.text ? it.candidate.text : "");
    api->candidate_list_end(&it);
  }
  return r;
}

// what the session shows after a command: committed text (if any) and the input left
static std::map<RimeSessionId, std::string> last_k_input;  // letters typed by the latest plain K command (command V)
static std::map<RimeSessionId, std::string> last_q_text;   // text and end of the candidate the latest Q command selected
static std::map<RimeSessionId, size_t> last_q_end;
static std::map<RimeSessionId, std::string> last_commit;   // text of the latest commit seen per session (command Y)
static void observe(const char* tag, RimeSessionId s) {
  std::string out = tag;
  RIME_STRUCT(RimeCommit, commit);
  if (api->get_commit(s, &commit)) {
    out += " commit=" + hex(commit.text ? commit.text : "");
    last_commit[s] = commit.text ? commit.text : "";
    api->free_commit(&commit);
  } else {
    out += " commit=none";
  }
  const char* in = api->get_input(s);
  out += " input=" + hex(in ? in : "");
  printf("%s\n", out.c_str());
}

static void dump_db(const std::string& name) {
  using namespace rime;
  auto component = UserDb::Require("userdb");
  if (!component) {
    printf("dump %s nocomponent\n", name.c_str());
    return;
  }
  the<Db> db(component->Create(name));
  if (!db->Exists()) {
    printf("dump %s absent\n", name.c_str());
    return;
  }
  if (!db->Open()) {
    printf("dump %s openfailed\n", name.c_str());
    return;
  }
  printf("dump %s open\n", name.c_str());
  auto acc = db->Query("");
  string k, v;
  while (acc && acc->GetNextRecord(&k, &v))
    printf("rec %s %s %s\n", name.c_str(), hex(k).c_str(), hex(v).c_str());
  acc.reset();
  db->Close();
  printf("enddump %s\n", name.c_str());
}

static int do_dump(int argc, char** argv) {
  using namespace rime;
  start(argv[2], argv[3]);
  for (int i = 4; i < argc; ++i) {
    string name(argv[i]);
    auto component = dynamic_cast<UserDictionaryComponent*>(
        UserDictionary::Require("user_dictionary"));
    if (!component) {
      printf("load %s nocomponent\n", name.c_str());
      continue;
    }
    the<UserDictionary> ud(component->Create(name, "userdb"));
    bool ok = ud && ud->Load();
    bool recovered = false;
    if (ud && !ok) {
      // Load scheduled the recovery task on the deployer's work thread
      Service::instance().deployer().JoinWorkThread();
      recovered = true;
      ok = ud->Load();
    }
    printf("load %s %s%s tick=%llu\n", name.c_str(), ok ? "ok" : "failed",
           recovered ? " after-recovery" : "",
           (unsigned long long)(ud ? ud->tick() : 0));
    ud.reset();
    dump_db(name);
  }
  api->finalize();
  return 0;
}

static int do_run(int argc, char** argv) {
  start(argv[2], argv[3]);
  std::ifstream script(argv[4]);
  std::map<int, RimeSessionId> sessions;
  std::string line;
  int index = 0;
  while (std::getline(script, line)) {
    if (line.empty())
      continue;
    std::istringstream is(line);
    std::string cmd;
    is >> cmd;
    if (cmd == "!") {
      // the process is killed at this command boundary: no destructor, no flush, no mark in the log
      fflush(stdout);
      _exit(137);
    }
    printf("@ %d\n", index);
    mark(index++);
    if (cmd == "T") {
      long d = 0;
      is >> d;
      g_clock += d;
      printf("T\n");
      continue;
    }
    if (cmd == "Z") {
      // the dump opens the dbs itself: keep these calls out of the hook log
      const char* log = getenv("VERIF_DBLOG");
      std::string saved(log ? log : "");
      unsetenv("VERIF_DBLOG");
      std::string name;
      while (is >> name)
        dump_db(name);
      if (!saved.empty())
        setenv("VERIF_DBLOG", saved.c_str(), 1);
      continue;
    }
    int sid = 0;
    is >> sid;
    if (cmd == "S") {
      std::string schema;
      is >> schema;
      RimeSessionId s = api->create_session();
      sessions[sid] = s;
      Bool ok = api->select_schema(s, schema.c_str());
      printf("S %d\n", ok ? 1 : 0);
      continue;
    }
    auto found = sessions.find(sid);
    if (found == sessions.end()) {
      printf("%s nosession\n", cmd.c_str());
      continue;
    }
    RimeSessionId s = found->second;
    if (cmd == "K") {
      std::string keys;
      std::getline(is, keys);
      if (!keys.empty() && keys[0] == ' ')
        keys.erase(0, 1);
      api->simulate_key_sequence(s, keys.c_str());
      if (keys.find('{') == std::string::npos) last_k_input[s] = keys;
      observe("K", s);
    } else if (cmd == "P" || cmd == "X") {
      unsigned long r = 0;
      is >> r;
      auto cands = candidates(s, 12);
      if (cands.empty()) {
        printf("%s nomenu\n", cmd.c_str());
        continue;
      }
      size_t i = r % cands.size();
      printf("%s index=%zu text=%s\n", cmd.c_str(), i, hex(cands[i]).c_str());
      if (cmd == "P")
        api->select_candidate(s, i);
      else
        api->delete_candidate(s, i);
      observe(cmd == "P" ? "P+" : "X+", s);
    } else if (cmd == "V") {
      // retype the stretch of the latest K input that the latest Q selection covered and delete the candidate with that text
      std::string prefix = last_k_input[s].substr(0, std::min(last_q_end[s], last_k_input[s].size()));
      if (prefix.empty() || last_q_text[s].empty()) {
        printf("V nothing\n");
        continue;
      }
      api->clear_composition(s);
      api->simulate_key_sequence(s, prefix.c_str());
      auto cands = candidates(s, 60);
      std::string out = "V prefix=" + prefix + " text=" + hex(last_q_text[s]) + " before=";
      for (auto& c : cands) out += hex(c) + ",";
      size_t i = 0;
      while (i < cands.size() && cands[i] != last_q_text[s]) ++i;
      if (i == cands.size()) {
        printf("%s notfound\n", out.c_str());
        api->clear_composition(s);
        continue;
      }
      api->delete_candidate(s, i);
      api->clear_composition(s);
      api->simulate_key_sequence(s, prefix.c_str());
      auto after = candidates(s, 60);
      out += " index=" + std::to_string(i) + " after=";
      for (auto& c : after) out += hex(c) + ",";
      printf("%s\n", out.c_str());
      api->clear_composition(s);
    } else if (cmd == "Y") {
      auto cands = candidates(s, 100);
      size_t i = 0;
      while (i < cands.size() && (last_commit[s].empty() || cands[i] != last_commit[s]))
        ++i;
      if (i == cands.size()) {
        printf("Y notfound\n");
        continue;
      }
      printf("Y index=%zu text=%s\n", i, hex(cands[i]).c_str());
      api->delete_candidate(s, i);
      observe("Y+", s);
    } else if (cmd == "Q") {
      unsigned long r = 0;
      is >> r;
      std::vector<size_t> partial;
      auto session = rime::Service::instance().GetSession(s);
      rime::Context* ctx = session ? session->context() : nullptr;
      if (ctx && ctx->HasMenu()) {
        auto& seg = ctx->composition().back();
        size_t n = seg.menu->Prepare(1500);
        for (size_t i = 0; i < n; ++i) {
          auto cand = seg.menu->GetCandidateAt(i);
          if (cand && cand->end() < ctx->input().length())
            partial.push_back(i);
        }
      }
      if (partial.empty()) {
        printf("Q nopartial\n");
        continue;
      }
      size_t i = partial[r % partial.size()];
      auto cands = candidates(s, i + 1);
      printf("Q index=%zu text=%s\n", i, i < cands.size() ? hex(cands[i]).c_str() : "?");
      if (i < cands.size()) {
        last_q_text[s] = cands[i];
        auto qc = ctx->composition().back().menu->GetCandidateAt(i);
        last_q_end[s] = qc ? qc->end() : 0;
      }
      api->select_candidate(s, i);
      observe("Q+", s);
    } else if (cmd == "F") {
      for (int n = 0; n < 8; ++n) {
        const char* in = api->get_input(s);
        if (!in || !*in)
          break;
        api->process_key(s, ' ', 0);
      }
      observe("F", s);
    } else if (cmd == "C") {
      api->commit_composition(s);
      observe("C", s);
    } else if (cmd == "R") {
      api->clear_composition(s);
      printf("R\n");
    } else if (cmd == "L") {
      std::string input;
      is >> input;
      api->clear_composition(s);
      api->simulate_key_sequence(s, input.c_str());
      auto cands = candidates(s, 60);
      std::string out = "L " + input;
      for (auto& c : cands)
        out += " " + hex(c);
      printf("%s\n", out.c_str());
      api->clear_composition(s);
    } else if (cmd == "D") {
      api->destroy_session(s);
      sessions.erase(found);
      printf("D\n");
    } else {
      printf("badcmd\n");
    }
    fflush(stdout);
  }
  mark(index);
  for (auto& x : sessions)
    api->destroy_session(x.second);
  api->finalize();
  printf("END\n");
  return 0;
}

int main(int argc, char** argv) {
  if (argc >= 5 && !strcmp(argv[1], "run"))
    return do_run(argc, argv);
  if (argc >= 5 && !strcmp(argv[1], "dump"))
    return do_dump(argc, argv);
  fprintf(stderr, "usage: udbl run|dump <shared> <user> ...\n");
  return 2;
}
