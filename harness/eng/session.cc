// "rimpl session": the reusable session harness of the Eng model (C05, C02, and
// later C03/C04/C16/C01).  Real librime behind the public C API, one fresh
// session per history, one canonical observation line after EVERY op.
//
//   session <workdir> synth|stock <histories-file>
//
// workspace (prepared once per <workdir>; marker file .deployed):
//   synth : default.yaml WITHOUT switcher hotkeys + schemas synth_express and
//           synth_fluid = processors [speller, selector, navigator,
//           express_editor|fluid_editor], segmentors [abc_segmentor,
//           fallback_segmentor], translators [verif_oracle_translator]
//           (registered by this executable, see oracle_translator.h);
//           synth_punct_express / synth_punct_fluid: the same plus punctuator (after the
//           speller), punct_segmentor (after abc_segmentor), punct_translator (first) and a
//           punctuation table with every definition shape.
//   stock : a copy of <repo>/data/minimal (luna_pinyin, cangjie5) plus the
//           variants luna_pinyin_fluid / cangjie5_fluid (express_editor replaced
//           by fluid_editor); user dictionaries disabled by *.custom.yaml so
//           that histories are independent of each other.
//
// histories file: one op per line; a line "schema <id>" starts a new history
// (fresh session, select_schema <id>).  Ops:
//   key <code> <mask> | input <hex|-> | caret <n> | sel <n> | selp <n> | hl <n>
//   | hlp <n> | del <n> | delp <n> | page <0|1 backward> | commit | clear
//   | getcommit | getctx | getinput | getcaret | getstatus | opt <name> <0|1>
// observation line (see docs/ENG.md):
//   <ret> C=<pending commit hex> I=<input hex> K=<caret> c=<composing>
//   P=<preedit hex> pl= pc= ss= se= V=<commit preview hex>
//   hm=<HasMenu> si=<selected_index of last segment|-> ps= pg= L= hl= n=
//   T=<cand text hex,...> X=<cand comment hex,...> sk=<select keys hex>
//   E=<cand end,...> ge=<end of last segment|-> cf=<commit text of the earlier segments hex> S=<status bits>
#include <rime/composition.h>
#include <rime/context.h>
#include <rime/service.h>
#include <rime_api.h>

#include <cinttypes>
#include <fstream>
#include <iostream>
#include <sstream>

#include "../common/rime_env.h"
#include "oracle_translator.h"

#ifndef VERIF_REPO
#define VERIF_REPO "/repo"
#endif

static std::string hx(const std::string& s) { return s.empty() ? "-" : vh::hex(s); }
static std::string hx(const char* s) { return (s && *s) ? vh::hex(std::string(s)) : "-"; }
static std::string unhx(const std::string& h) { return h == "-" ? std::string() : vh::unhex(h); }

static std::string read_file(const std::string& p) {
  std::ifstream f(p, std::ios::binary);
  std::stringstream ss;
  ss << f.rdbuf();
  return ss.str();
}
static void replace_all(std::string& s, const std::string& a, const std::string& b) {
  for (size_t p = 0; (p = s.find(a, p)) != std::string::npos; p += b.size()) s.replace(p, a.size(), b);
}

static std::string synth_schema(const std::string& id, const std::string& editor) {
  return "schema:\n  schema_id: " + id + "\n  name: " + id + "\n  version: \"1\"\n"
         "engine:\n  processors:\n    - speller\n    - selector\n    - navigator\n    - " + editor + "\n"
         "  segmentors:\n    - abc_segmentor\n    - fallback_segmentor\n"
         "  translators:\n    - verif_oracle_translator\n"
         "speller:\n  alphabet: zyxwvutsrqponmlkjihgfedcba\n  delimiter: \" '\"\n"
         "menu:\n  page_size: 5\n";
}

// synth_punct_express / synth_punct_fluid: the stock position of the punctuator in the three chains and a
// punctuation table with all four definition shapes (+ malformed ones); keep in sync with
// coq/Eng/Oracle.v: synth_half_shape / synth_full_shape / synth_punct_cfg_gen.
static std::string synth_punct_schema(const std::string& id, const std::string& editor, bool fluid) {
  return "schema:\n  schema_id: " + id + "\n  name: " + id + "\n  version: \"1\"\n"
         "engine:\n  processors:\n    - speller\n    - punctuator\n    - selector\n    - navigator\n    - " + editor + "\n"
         "  segmentors:\n    - abc_segmentor\n    - punct_segmentor\n    - fallback_segmentor\n"
         "  translators:\n    - punct_translator\n    - verif_oracle_translator\n"
         "speller:\n  alphabet: zyxwvutsrqponmlkjihgfedcba\n  delimiter: \" '\"\n"
         "menu:\n  page_size: 5\n"
         "punctuator:\n"
         + std::string(fluid ? "  use_space: true\n  digit_separators: \".:\"\n  digit_separator_action: commit\n"
                             : "  use_space: false\n") +
         "  half_shape:\n"
         "    \",\": \"\xef\xbc\x8c\"\n"
         "    \".\": [\"\xe3\x80\x82\", \"\xef\xbc\x8e\", \".\"]\n"
         "    \";\": {commit: \"\xef\xbc\x9b\"}\n"
         "    \"\\\"\": {pair: [\"\xe2\x80\x9c\", \"\xe2\x80\x9d\"]}\n"
         "    \"'\": {pair: [\"\xe2\x80\x98\", \"\xe2\x80\x99\"]}\n"
         "    \"/\": [\"\xe3\x80\x81\", \"/\", \"\xc3\xb7\"]\n"
         "    \":\": \"\xef\xbc\x9a\"\n"
         "    \"!\": \"!\"\n"
         "    \"$\": [\"\xef\xbf\xa5\", \"$\", \"\xe2\x82\xac\", \"\xc2\xa2\"]\n"
         "    \"~\": [\"~~\", \"\xef\xbd\x9e\"]\n"
         "    \"#\": []\n"
         "    \"%\": {pair: [\"%\"]}\n"
         "    \"^\": {commit: \"\xe2\x80\xa6\xe2\x80\xa6\", pair: [\"a\", \"b\"]}\n"
         "    \"@\": {}\n"
         "  full_shape:\n"
         "    \",\": \"\xef\xbc\x8c\"\n"
         "    \".\": \"\xef\xbc\x8e\"\n"
         "    \";\": [\"\xef\xbc\x9b\", \";\"]\n"
         "    \"\\\"\": {pair: [\"\xef\xbc\x82\", \"\xef\xbc\x82\"]}\n"
         "    \" \": {commit: \"\xe3\x80\x80\"}\n"
         "    \"/\": \"\xef\xbc\x8f\"\n"
         "    \"<\": [\"\xe3\x80\x8a\", \"\xe3\x80\x88\"]\n";
}

// synth_kb_express / synth_kb_fluid: synth_punct_* with key_binder first and the bindings of coq/Eng/Oracle.v: synth_bindings
// (generated from the same table; keep in sync).
static std::string synth_kb_schema(const std::string& id, const std::string& editor, bool fluid) {
  std::string y = synth_punct_schema(id, editor, fluid);
  replace_all(y, "  processors:\n    - speller\n", "  processors:\n    - key_binder\n    - speller\n");
  return y + "key_binder:\n  bindings:\n"
         "    - {when: composing, accept: \"Control+p\", send: \"Up\"}\n"
         "    - {when: composing, accept: \"Control+n\", send: \"Down\"}\n"
         "    - {when: composing, accept: \"Control+b\", send: \"Left\"}\n"
         "    - {when: composing, accept: \"Control+f\", send: \"Right\"}\n"
         "    - {when: composing, accept: \"Control+h\", send: \"BackSpace\"}\n"
         "    - {when: composing, accept: \"Control+g\", send: \"Escape\"}\n"
         "    - {when: composing, accept: \"Shift+Tab\", send: \"Shift+Left\"}\n"
         "    - {when: composing, accept: \"Tab\", send: \"Shift+Right\"}\n"
         "    - {when: paging, accept: \"minus\", send: \"Page_Up\"}\n"
         "    - {when: has_menu, accept: \"equal\", send: \"Page_Down\"}\n"
         "    - {when: paging, accept: \"comma\", send: \"Page_Up\"}\n"
         "    - {when: has_menu, accept: \"period\", send: \"Page_Down\"}\n"
         "    - {when: always, accept: \"Control+Shift+4\", toggle: \"full_shape\"}\n"
         "    - {when: always, accept: \"Control+period\", toggle: \"ascii_punct\"}\n"
         "    - {when: always, accept: \"Control+Shift+2\", set_option: \"ascii_punct\"}\n"
         "    - {when: always, accept: \"Control+Shift+3\", unset_option: \"ascii_punct\"}\n"
         "    - {when: always, accept: \"Control+s\", send: \"Control+s\"}\n"
         "    - {when: always, accept: \"Control+a\", send: \"Control+e\"}\n"
         "    - {when: always, accept: \"Control+e\", send: \"Control+a\"}\n"
         "    - {when: always, accept: \"Control+c\", send_sequence: \"ab{Control+d}c\"}\n"
         "    - {when: composing, accept: \"Control+d\", send: \"x\"}\n"
         "    - {when: always, accept: \"Control+k\", send: \"y\"}\n"
         "    - {when: composing, accept: \"Control+k\", send_sequence: \"{End}{BackSpace}\"}\n"
         "    - {when: composing, accept: \"Control+k\", send: \"z\"}\n"
         "    - {when: has_menu, accept: \"bracketleft\", send_sequence: \"{Page_Down}{Down}\"}\n"
         "    - {when: composing, accept: \"Control+w\", toggle: \"verif_short\"}\n"
         "    - {when: always, accept: \"Control+q\", send: \"comma\"}\n"
         "    - {when: composing, accept: \"Control+j\", send_sequence: \"{Control+s}.{Control+k}\"}\n";
}

// synth_ascii_express / synth_ascii_fluid: the stock chain order [ascii_composer, key_binder, speller, punctuator, selector,
// navigator, editor] and segmentors [ascii_segmentor, abc_segmentor, punct_segmentor, fallback_segmentor] over synth_kb_*;
// ascii_composer/switch_key as in coq/Eng/Oracle.v: synth_ascii_keys (keep in sync).
static std::string synth_ascii_schema(const std::string& id, const std::string& editor, bool fluid) {
  std::string y = synth_kb_schema(id, editor, fluid);
  replace_all(y, "  processors:\n    - key_binder\n", "  processors:\n    - ascii_composer\n    - key_binder\n");
  replace_all(y, "  segmentors:\n    - abc_segmentor\n", "  segmentors:\n    - ascii_segmentor\n    - abc_segmentor\n");
  return y + (fluid ? "ascii_composer:\n  good_old_caps_lock: false\n  switch_key:\n    Shift_L: commit_code\n    Shift_R: inline_ascii\n"
                      "    Control_L: noop\n    Control_R: commit_text\n    Caps_Lock: commit_text\n    Eisu_toggle: inline_ascii\n"
                    : "ascii_composer:\n  good_old_caps_lock: true\n  switch_key:\n    Shift_L: inline_ascii\n    Shift_R: commit_text\n"
                      "    Control_L: commit_code\n    Control_R: clear\n    Caps_Lock: clear\n    Eisu_toggle: clear\n");
}

// synth_acedit_express / synth_acedit_fluid: synth_punct_* with ascii_composer first and ascii_segmentor first (no key binder):
// a chain of C05's theorem (coq/Eng/Oracle.v: synth_acedit_cfg; keep in sync)
static std::string synth_acedit_schema(const std::string& id, const std::string& editor, bool fluid) {
  std::string y = synth_punct_schema(id, editor, fluid);
  replace_all(y, "  processors:\n    - speller\n", "  processors:\n    - ascii_composer\n    - speller\n");
  replace_all(y, "  segmentors:\n    - abc_segmentor\n", "  segmentors:\n    - ascii_segmentor\n    - abc_segmentor\n");
  return y + (fluid ? "ascii_composer:\n  good_old_caps_lock: false\n  switch_key:\n    Shift_L: commit_code\n    Shift_R: inline_ascii\n"
                      "    Control_L: noop\n    Control_R: commit_text\n    Caps_Lock: commit_text\n    Eisu_toggle: inline_ascii\n"
                    : "ascii_composer:\n  good_old_caps_lock: true\n  switch_key:\n    Shift_L: inline_ascii\n    Shift_R: commit_text\n"
                      "    Control_L: commit_code\n    Control_R: clear\n    Caps_Lock: clear\n    Eisu_toggle: clear\n");
}

// the virtual steady clock of gear/ascii_composer.cc (hook, RIME_VERIF_HOOKS): op "tick <ms>" advances it
namespace rime { extern long long verif_ascii_clock_ms; }

static void prepare(const std::string& shared, const std::string& kind) {
  vh::mkdirs(shared);
  if (kind == "synth") {
    vh::write_file(shared + "/default.yaml",
                   "config_version: \"verif\"\nschema_list:\n  - schema: synth_express\n  - schema: synth_fluid\n"
                   "  - schema: synth_punct_express\n  - schema: synth_punct_fluid\n"
                   "  - schema: synth_kb_express\n  - schema: synth_kb_fluid\n"
                   "  - schema: synth_ascii_express\n  - schema: synth_ascii_fluid\n"
                   "  - schema: synth_acedit_express\n  - schema: synth_acedit_fluid\n"
                   "switcher:\n  caption: \"[verif]\"\n  hotkeys: []\nmenu:\n  page_size: 5\n");
    vh::write_file(shared + "/synth_express.schema.yaml", synth_schema("synth_express", "express_editor"));
    vh::write_file(shared + "/synth_fluid.schema.yaml", synth_schema("synth_fluid", "fluid_editor"));
    vh::write_file(shared + "/synth_punct_express.schema.yaml", synth_punct_schema("synth_punct_express", "express_editor", false));
    vh::write_file(shared + "/synth_punct_fluid.schema.yaml", synth_punct_schema("synth_punct_fluid", "fluid_editor", true));
    vh::write_file(shared + "/synth_kb_express.schema.yaml", synth_kb_schema("synth_kb_express", "express_editor", false));
    vh::write_file(shared + "/synth_kb_fluid.schema.yaml", synth_kb_schema("synth_kb_fluid", "fluid_editor", true));
    vh::write_file(shared + "/synth_ascii_express.schema.yaml", synth_ascii_schema("synth_ascii_express", "express_editor", false));
    vh::write_file(shared + "/synth_ascii_fluid.schema.yaml", synth_ascii_schema("synth_ascii_fluid", "fluid_editor", true));
    vh::write_file(shared + "/synth_acedit_express.schema.yaml", synth_acedit_schema("synth_acedit_express", "express_editor", false));
    vh::write_file(shared + "/synth_acedit_fluid.schema.yaml", synth_acedit_schema("synth_acedit_fluid", "fluid_editor", true));
  } else {
    const char* files[] = {"cangjie5.dict.yaml", "cangjie5.schema.yaml", "default.yaml", "essay.txt",
                           "luna_pinyin.dict.yaml", "luna_pinyin.schema.yaml", "symbols.yaml"};
    const std::string src = std::string(VERIF_REPO) + "/data/minimal/";
    for (const char* f : files) vh::write_file(shared + "/" + f, read_file(src + f));
    for (std::string id : {"luna_pinyin", "cangjie5"}) {
      std::string y = read_file(src + id + ".schema.yaml");
      replace_all(y, "schema_id: " + id, "schema_id: " + id + "_fluid");
      replace_all(y, "- express_editor", "- fluid_editor");
      vh::write_file(shared + "/" + id + "_fluid.schema.yaml", y);
    }
    vh::write_file(shared + "/default.custom.yaml",
                   "patch:\n  schema_list:\n    - schema: luna_pinyin\n    - schema: cangjie5\n"
                   "    - schema: luna_pinyin_fluid\n    - schema: cangjie5_fluid\n");
    for (std::string id : {"luna_pinyin", "cangjie5", "luna_pinyin_fluid", "cangjie5_fluid"})
      vh::write_file(shared + "/" + id + ".custom.yaml",
                     "patch:\n  \"translator/enable_user_dict\": false\n  \"cangjie/enable_user_dict\": false\n");
  }
}

static void observe(RimeApi* api, RimeSessionId sid, const std::string& ret) {
  std::ostringstream o;
  auto session = rime::Service::instance().GetSession(sid);
  o << ret << " C=" << hx(session ? session->commit_text() : std::string());
  const char* in = api->get_input(sid);
  o << " I=" << hx(in) << " K=" << api->get_caret_pos(sid);
  RIME_STRUCT(RimeContext, c);
  api->get_context(sid, &c);
  RIME_STRUCT(RimeStatus, st);
  api->get_status(sid, &st);
  o << " c=" << (st.is_composing ? 1 : 0);
  o << " P=" << hx(c.composition.preedit) << " pl=" << c.composition.length << " pc=" << c.composition.cursor_pos
    << " ss=" << c.composition.sel_start << " se=" << c.composition.sel_end << " V=" << hx(c.commit_text_preview);
  rime::Context* ctx = session ? session->context() : nullptr;
  o << " hm=" << (ctx && ctx->HasMenu() ? 1 : 0) << " si=";
  if (ctx && !ctx->composition().empty())
    o << ctx->composition().back().selected_index;
  else
    o << "-";
  o << " ps=" << c.menu.page_size << " pg=" << c.menu.page_no << " L=" << (c.menu.is_last_page ? 1 : 0)
    << " hl=" << c.menu.highlighted_candidate_index << " n=" << c.menu.num_candidates << " T=";
  for (int i = 0; i < c.menu.num_candidates; ++i) o << (i ? "," : "") << hx(c.menu.candidates[i].text);
  if (c.menu.num_candidates == 0) o << "-";
  o << " X=";
  for (int i = 0; i < c.menu.num_candidates; ++i) o << (i ? "," : "") << hx(c.menu.candidates[i].comment);
  if (c.menu.num_candidates == 0) o << "-";
  o << " sk=" << hx(c.menu.select_keys);
  // ends of the displayed candidates, end of the last segment, commit text of the earlier segments (internals)
  o << " E=";
  if (c.menu.num_candidates == 0 || !ctx || ctx->composition().empty()) {
    o << "-";
  } else {
    const rime::Segment& seg(ctx->composition().back());
    size_t page_start = (size_t)c.menu.page_no * (size_t)c.menu.page_size;
    for (int i = 0; i < c.menu.num_candidates; ++i) {
      auto cand = seg.GetCandidateAt(page_start + i);
      o << (i ? "," : "");
      if (cand) o << cand->end(); else o << "?";
    }
  }
  o << " ge=";
  if (ctx && !ctx->composition().empty()) o << ctx->composition().back().end; else o << "-";
  std::string confirmed;
  if (ctx) {
    const rime::Composition& comp(ctx->composition());
    for (size_t i = 0; i + 1 < comp.size(); ++i) {
      if (auto cand = comp[i].GetSelectedCandidate()) {
        confirmed += cand->text();
      } else if (!comp[i].HasTag("phony") && comp[i].start <= comp.input().size()) {
        confirmed += comp.input().substr(comp[i].start, comp[i].end - comp[i].start);
      }
    }
  }
  o << " cf=" << hx(confirmed);
  o << " S=" << (st.is_composing ? 1 : 0) << (st.is_ascii_mode ? 1 : 0) << (st.is_full_shape ? 1 : 0)
    << (st.is_simplified ? 1 : 0) << (st.is_traditional ? 1 : 0) << (st.is_ascii_punct ? 1 : 0)
    << (st.is_disabled ? 1 : 0);
  api->free_context(&c);
  api->free_status(&st);
  std::cout << o.str() << std::endl;
}

int main(int argc, char** argv) {
  if (argc < 4) {
    std::fprintf(stderr, "usage: session <workdir> synth|stock <histories>\n");
    return 2;
  }
  std::string work = argv[1], kind = argv[2];
  std::string shared = work + "/" + kind + "/shared", user = work + "/" + kind + "/user";
  bool fresh = !std::ifstream(work + "/" + kind + "/.deployed").good();
  if (fresh) prepare(shared, kind);
  vh::Env env;
  env.start(shared, user, false);
  vh::register_oracle_translator();
  RimeApi* api = env.api;
  if (fresh) {
    if (!api->start_maintenance(True)) {
      std::fprintf(stderr, "deploy failed to start\n");
    }
    api->join_maintenance_thread();
    vh::write_file(work + "/" + kind + "/.deployed", "1");
  }
  std::ifstream hist(argv[3]);
  std::string line;
  RimeSessionId sid = 0;
  while (std::getline(hist, line)) {
    if (line.empty() || line[0] == '#') continue;
    std::istringstream is(line);
    std::string op;
    is >> op;
    if (op == "schema") {
      std::string id;
      is >> id;
      if (sid) api->destroy_session(sid);
      rime::verif_ascii_clock_ms = 0;   // every history starts at virtual time 0 (the model's init_state)
      sid = api->create_session();
      Bool ok = api->select_schema(sid, id.c_str());
      RIME_STRUCT(RimeStatus, st);
      api->get_status(sid, &st);
      bool match = ok && st.schema_id && id == st.schema_id;
      api->free_status(&st);
      std::cout << "== " << id << (match ? "" : " FAIL") << std::endl;
      continue;
    }
    if (!sid) continue;
    std::string ret = "-";
    if (op == "key") {
      long long code, mask;
      is >> code >> mask;
      ret = api->process_key(sid, (int)code, (int)mask) ? "1" : "0";
    } else if (op == "input") {
      std::string h;
      is >> h;
      ret = api->set_input(sid, unhx(h).c_str()) ? "1" : "0";
    } else if (op == "caret") {
      unsigned long long n;
      is >> n;
      api->set_caret_pos(sid, (size_t)n);
    } else if (op == "sel" || op == "selp" || op == "hl" || op == "hlp" || op == "del" || op == "delp") {
      unsigned long long n;
      is >> n;
      Bool r = op == "sel"    ? api->select_candidate(sid, n)
               : op == "selp" ? api->select_candidate_on_current_page(sid, n)
               : op == "hl"   ? api->highlight_candidate(sid, n)
               : op == "hlp"  ? api->highlight_candidate_on_current_page(sid, n)
               : op == "del"  ? api->delete_candidate(sid, n)
                              : api->delete_candidate_on_current_page(sid, n);
      ret = r ? "1" : "0";
    } else if (op == "page") {
      int b;
      is >> b;
      ret = api->change_page(sid, b ? True : False) ? "1" : "0";
    } else if (op == "commit") {
      ret = api->commit_composition(sid) ? "1" : "0";
    } else if (op == "clear") {
      api->clear_composition(sid);
    } else if (op == "getcommit") {
      RIME_STRUCT(RimeCommit, cm);
      if (api->get_commit(sid, &cm)) {
        ret = "1:" + hx(cm.text);
        api->free_commit(&cm);
      } else {
        ret = "0";
      }
    } else if (op == "getctx" || op == "getinput" || op == "getcaret" || op == "getstatus") {
      // the observation below performs these reads
    } else if (op == "tick") {
      long long ms;
      is >> ms;
      rime::verif_ascii_clock_ms += ms;
    } else if (op == "opt") {
      std::string name;
      int v;
      is >> name >> v;
      api->set_option(sid, name.c_str(), v ? True : False);
    } else {
      std::cout << "BADOP " << line << "\n";
      continue;
    }
    observe(api, sid, ret);
  }
  std::cout.flush();
  if (sid) api->destroy_session(sid);
  env.stop();
  return 0;
}
