// verif_oracle_translator: a Translator whose candidate list is a fixed pure
// function of the segment's input string (and the segment's start offset).
// Written once here in C++ and once in Gallina (coq/Eng/Oracle.v:
// oracle_translate).  Keep the two in sync; the correspondence check compares
// them through every observation.
//
//   n = |input|; n = 0 -> no translation.
//   input[0] = 'x'      -> no candidate at all (an exhausted translation)
//   input[0] = 'u'      -> exactly one candidate, of length n
//   input[0] = 'v'      -> exactly two candidates, of length n
//   otherwise           -> for L in lens(n) = [n, n-1 (n>=2), n-2 (n>=3), 1 (n>=4)]:
//                            cnt = (L == n) ? 3 + input[L-1] % 8 : 1 + input[L-1] % 3
//                            candidates (L, j) for j < cnt
//   candidate (L, j): start = seg.start, end = seg.start + L,
//     text    = concat_{i<L} ch(input[i], j)         (1..4 byte UTF-8 characters)
//     comment = (j % 3 == 1) ? "~" + ('0' + L % 10) : ""
//     preedit = j == 0 ? input[0..L) joined by ' '
//             : j == 1 ? input[0..h) + "\t" + input[h..L) + "|"   (h = (L+1)/2)
//             : ""
//   with the context option "verif_short" on, only the first half (rounded up)
//   of that list is yielded (the candidate COUNT depends on an option).
#pragma once
#include <rime/candidate.h>
#include <rime/context.h>
#include <rime/engine.h>
#include <rime/component.h>
#include <rime/registry.h>
#include <rime/segmentation.h>
#include <rime/translation.h>
#include <rime/translator.h>
#include <string>

namespace vh {

inline std::string oracle_ch(unsigned char b, unsigned j) {
  std::string s;
  switch ((b + j) % 4) {
    case 0: s += char(0x41 + b % 26); break;
    case 1: s += char(0xC3); s += char(0xA0 + b % 32); break;
    case 2: s += char(0xE4); s += char(0xB8 + (b / 64) % 4); s += char(0x80 + b % 64); break;
    default: s += char(0xF0); s += char(0x9F); s += char(0x98); s += char(0x80 + b % 64); break;
  }
  return s;
}

class OracleTranslator : public rime::Translator {
 public:
  explicit OracleTranslator(const rime::Ticket& t) : rime::Translator(t) {}
  rime::an<rime::Translation> Query(const std::string& input, const rime::Segment& seg) override {
    size_t n = input.size();
    if (n == 0) return nullptr;
    auto fifo = rime::New<rime::FifoTranslation>();
    unsigned char c0 = input[0];
    if (c0 == 'x') return fifo;
    std::vector<rime::an<rime::Candidate>> all;
    std::vector<size_t> lens{n};
    if (c0 != 'u' && c0 != 'v') {
      if (n >= 2) lens.push_back(n - 1);
      if (n >= 3) lens.push_back(n - 2);
      if (n >= 4) lens.push_back(1);
    }
    for (size_t L : lens) {
      unsigned char b = input[L - 1];
      unsigned cnt = c0 == 'u' ? 1 : c0 == 'v' ? 2 : (L == n ? 3 + b % 8 : 1 + b % 3);
      for (unsigned j = 0; j < cnt; ++j) {
        std::string text, comment, preedit;
        for (size_t i = 0; i < L; ++i) text += oracle_ch(input[i], j);
        if (j % 3 == 1) { comment = "~"; comment += char('0' + L % 10); }
        if (j == 0) {
          for (size_t i = 0; i < L; ++i) { if (i) preedit += ' '; preedit += input[i]; }
        } else if (j == 1) {
          size_t h = (L + 1) / 2;
          preedit = input.substr(0, h) + "\t" + input.substr(h, L - h) + "|";
        }
        all.push_back(rime::New<rime::SimpleCandidate>("oracle", seg.start, seg.start + L, text, comment, preedit));
      }
    }
    bool shorten = engine_ && engine_->context() && engine_->context()->get_option("verif_short");
    size_t keep = shorten ? (all.size() + 1) / 2 : all.size();
    for (size_t i = 0; i < keep; ++i) fifo->Append(all[i]);
    return fifo;
  }
};

inline void register_oracle_translator() {
  rime::Registry::instance().Register("verif_oracle_translator", new rime::Component<OracleTranslator>);
}

}  // namespace vh
