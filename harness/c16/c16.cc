// C16 harness: several sessions of the real library driven from one script, one thread.
//   c16 <shared_dir> <user_dir> <staging_dir> <script>
// Script: one op per line "<logical session> <op> [args]"; see checks/c16.py.
// Output: one line per script line:
//   <lineno>|<logical>|<op>|<canonical id or ->|<live per find_session just before: 0/1>|<observation>
// Real session ids (addresses) are renamed to canonical numbers by first appearance.
#include "../common/session_ops.h"
#include <rime/config.h>
#include <iostream>
#include <map>
#include <sstream>

using namespace vh;

// The wall clock of the process is virtual: time() is defined here (the executable's definition is found
// first by the dynamic linker, so librime.so's calls to time() resolve to it as well) and advances only
// through the script op `advance <seconds>` - session staleness becomes deterministic and testable.
static time_t g_fake_now = 1790000000;
static bool g_time_called = false;
extern "C" time_t time(time_t* t) {
  g_time_called = true;
  if (t) *t = g_fake_now;
  return g_fake_now;
}

// op `handler 1`: a notification handler that does what frontends do inside it - session-level API calls on the session the
// message is about (status, option, state label, current schema); `handler 0` removes it.  Never calls
// set_notification_handler itself (that takes the lock Service::Notify holds).
// the steady clock of the ascii composer's tap window is virtual too (hook 19b65ff): op `tick <ms>` advances it, so that
// Shift / Control taps are deterministic (always inside the window unless the script says otherwise)
namespace rime { extern long long verif_ascii_clock_ms; }
static RimeApi* g_api = nullptr;
static long g_handler_calls = 0;
static void on_message(void*, RimeSessionId sid, const char* type, const char* value) {
  ++g_handler_calls;
  if (!g_api || !sid) return;
  RIME_STRUCT(RimeStatus, st);
  if (g_api->get_status(sid, &st)) g_api->free_status(&st);
  std::string t(type ? type : ""), v(value ? value : "");
  if (t == "option") {
    bool on = v.empty() || v[0] != '!';
    std::string name = on ? v : v.substr(1);
    g_api->get_option(sid, name.c_str());
    g_api->get_state_label_abbreviated(sid, name.c_str(), on ? True : False, True);
    g_api->get_state_label(sid, name.c_str(), on ? True : False);
  } else if (t == "schema") {
    char buf[64];
    g_api->get_current_schema(sid, buf, sizeof buf);
    g_api->get_input(sid);
  } else {
    g_api->get_property(sid, "p1", nullptr, 0);
  }
}

int main(int argc, char** argv) {
  if (argc < 5) {
    fprintf(stderr, "usage: c16 <shared> <user> <staging> <script>\n");
    return 2;
  }
  std::cout.setf(std::ios::unitbuf);  // a crash must not lose the lines already executed
  Env env;
  if (!env.start_with_staging(argv[1], argv[2], argv[3])) return 3;
  RimeApi* api = env.api;
  rime::verif_ascii_clock_ms = 0;
  std::ifstream in(argv[4]);
  std::map<int, RimeSessionId> real;       // logical -> last real id
  std::map<int, bool> created;             // logical currently believed live by the script
  std::map<RimeSessionId, int> canon;      // real id -> canonical number
  std::map<int, bool> aliased;             // dead logical whose address was issued again
  auto canon_of = [&](RimeSessionId id) {
    auto it = canon.find(id);
    if (it != canon.end()) return it->second;
    int k = (int)canon.size() + 1;
    canon[id] = k;
    return k;
  };
  std::string line;
  int lineno = 0;
  while (std::getline(in, line)) {
    ++lineno;
    if (line.empty()) continue;
    std::istringstream ls(line);
    int lg;
    std::string op;
    ls >> lg >> op;
    std::ostringstream obs;
    if (op == "advance") {
      long d;
      ls >> d;
      g_fake_now += d;
      std::cout << lineno << "|" << lg << "|" << op << "|-|0|unit\n";
      continue;
    }
    if (op == "persist") {
      // another client (or another session's switcher menu) saves an option: var/option/<name> of the shared user config
      std::string name;
      int v = 0;
      ls >> name >> v;
      auto* comp = rime::Config::Require("user_config");
      bool ok = false;
      if (comp) {
        rime::the<rime::Config> user_config(comp->Create("user"));
        ok = user_config && user_config->SetBool("var/option/" + name, v != 0);
      }
      std::cout << lineno << "|" << lg << "|" << op << "|-|0|" << (ok ? "unit" : "failed") << "\n";
      continue;
    }
    if (op == "tick") {
      long long ms = 0;
      ls >> ms;
      rime::verif_ascii_clock_ms += ms;
      std::cout << lineno << "|" << lg << "|" << op << "|-|0|unit\n";
      continue;
    }
    if (op == "handler") {
      int on = 0;
      ls >> on;
      g_api = api;
      api->set_notification_handler(on ? on_message : nullptr, nullptr);
      std::cout << lineno << "|" << lg << "|" << op << "|-|0|unit\n";
      continue;
    }
    if (op == "cleanup_stale") {
      api->cleanup_stale_sessions();
      std::cout << lineno << "|" << lg << "|" << op << "|-|0|unit\n";
      continue;
    }
    if (op == "cleanup_all") {
      api->cleanup_all_sessions();
      for (auto& c : created) c.second = false;
      std::cout << lineno << "|" << lg << "|" << op << "|-|0|unit\n";
      continue;
    }
    if (op == "create") {
      {  // snapshot the persisted user settings this session is created from
        std::ifstream u(std::string(argv[2]) + "/user.yaml", std::ios::binary);
        std::ostringstream ss;
        ss << u.rdbuf();
        mkdirs(std::string(argv[2]) + "/snap");
        write_file(std::string(argv[2]) + "/snap/" + std::to_string(lineno) + ".yaml", ss.str());
      }
      RimeSessionId id = api->create_session();
      int k = id ? canon_of(id) : 0;
      for (auto& r : real)
        if (r.first != lg && r.second == id && !created[r.first]) aliased[r.first] = true;
      real[lg] = id;
      created[lg] = id != 0;
      aliased[lg] = false;
      std::cout << lineno << "|" << lg << "|create|" << k << "|0|created " << k << "\n";
      continue;
    }
    // never-created logical sessions use an id that is never a heap address
    RimeSessionId id = real.count(lg) ? real[lg] : (RimeSessionId)(0x11 + 2 * lg);
    if (!real.count(lg)) real[lg] = id;
    if (aliased[lg]) {
      std::cout << lineno << "|" << lg << "|" << op << "|" << canon_of(id) << "|-|skipped-aliased\n";
      continue;
    }
    int k = canon_of(id);
    if (op == "find") {
      std::cout << lineno << "|" << lg << "|find|" << k << "|-|bool " << (api->find_session(id) ? 1 : 0) << "\n";
      continue;
    }
    if (op == "destroy") {
      int live = api->find_session(id) ? 1 : 0;
      Bool r = api->destroy_session(id);
      created[lg] = false;
      std::cout << lineno << "|" << lg << "|destroy|" << k << "|" << live << "|bool " << (r ? 1 : 0) << "\n";
      continue;
    }
    int live = api->find_session(id) ? 1 : 0;
    if (!exec_op(api, id, op, ls, obs)) obs << "BADOP";
    std::cout << lineno << "|" << lg << "|" << op << "|" << k << "|" << live << "|" << obs.str() << "\n";
  }
  std::cout.flush();
  api->cleanup_all_sessions();
  env.stop();
  std::cout << "HANDLER-CALLS " << g_handler_calls << "\n";
  std::cout << (g_time_called ? "DONE" : "DONE-BUT-time()-NOT-INTERPOSED") << std::endl;
  return 0;
}
