// C16 harness: several sessions of the real library driven from one script, one thread.
//   c16 <shared_dir> <user_dir> <staging_dir> <script>
// Script: one op per line "<logical session> <op> [args]"; see checks/c16.py.
// Output: one line per script line:
//   <lineno>|<logical>|<op>|<canonical id or ->|<live per find_session just before: 0/1>|<observation>
// Real session ids (addresses) are renamed to canonical numbers by first appearance.
#include "../common/rime_env.h"
#include <iostream>
#include <map>
#include <sstream>

using namespace vh;

static std::string esc(const char* s) {
  if (!s) return "NULL";
  std::string o = "\"";
  for (const unsigned char* p = (const unsigned char*)s; *p; ++p) {
    if (*p == '|' || *p == '\\' || *p == '"' || *p < 0x20) {
      char b[8];
      snprintf(b, sizeof b, "\\x%02x", *p);
      o += b;
    } else {
      o += (char)*p;
    }
  }
  return o + "\"";
}

int main(int argc, char** argv) {
  if (argc < 5) {
    fprintf(stderr, "usage: c16 <shared> <user> <staging> <script>\n");
    return 2;
  }
  Env env;
  if (!env.start_with_staging(argv[1], argv[2], argv[3])) return 3;
  RimeApi* api = env.api;
  std::ifstream in(argv[4]);
  std::map<int, RimeSessionId> real;       // logical -> last real id
  std::map<int, bool> created;             // logical currently believed live by the script
  std::map<RimeSessionId, int> canon;      // real id -> canonical number
  std::map<int, bool> aliased;             // dead logical whose address was issued again
  auto canon_of = [&](RimeSessionId id) {
    auto it = canon.find(id);
    if (it != canon.end()) return it->second;
    int k = (int)canon.size() + 1;
    canon[id] = k;
    return k;
  };
  std::string line;
  int lineno = 0;
  while (std::getline(in, line)) {
    ++lineno;
    if (line.empty()) continue;
    std::istringstream ls(line);
    int lg;
    std::string op;
    ls >> lg >> op;
    std::ostringstream obs;
    if (op == "cleanup_all") {
      api->cleanup_all_sessions();
      for (auto& c : created) c.second = false;
      std::cout << lineno << "|" << lg << "|" << op << "|-|0|unit\n";
      continue;
    }
    if (op == "create") {
      {  // snapshot the persisted user settings this session is created from
        std::ifstream u(std::string(argv[2]) + "/user.yaml", std::ios::binary);
        std::ostringstream ss;
        ss << u.rdbuf();
        mkdirs(std::string(argv[2]) + "/snap");
        write_file(std::string(argv[2]) + "/snap/" + std::to_string(lineno) + ".yaml", ss.str());
      }
      RimeSessionId id = api->create_session();
      int k = id ? canon_of(id) : 0;
      for (auto& r : real)
        if (r.first != lg && r.second == id && !created[r.first]) aliased[r.first] = true;
      real[lg] = id;
      created[lg] = id != 0;
      aliased[lg] = false;
      std::cout << lineno << "|" << lg << "|create|" << k << "|0|created " << k << "\n";
      continue;
    }
    // never-created logical sessions use an id that is never a heap address
    RimeSessionId id = real.count(lg) ? real[lg] : (RimeSessionId)(0x11 + 2 * lg);
    if (!real.count(lg)) real[lg] = id;
    if (aliased[lg]) {
      std::cout << lineno << "|" << lg << "|" << op << "|" << canon_of(id) << "|-|skipped-aliased\n";
      continue;
    }
    int k = canon_of(id);
    if (op == "find") {
      std::cout << lineno << "|" << lg << "|find|" << k << "|-|bool " << (api->find_session(id) ? 1 : 0) << "\n";
      continue;
    }
    if (op == "destroy") {
      int live = api->find_session(id) ? 1 : 0;
      Bool r = api->destroy_session(id);
      created[lg] = false;
      std::cout << lineno << "|" << lg << "|destroy|" << k << "|" << live << "|bool " << (r ? 1 : 0) << "\n";
      continue;
    }
    int live = api->find_session(id) ? 1 : 0;
    if (op == "key") {
      int code, mask;
      ls >> code >> mask;
      obs << "ret " << (api->process_key(id, code, mask) ? 1 : 0);
    } else if (op == "simulate") {
      std::string seq;
      ls >> seq;
      obs << "ret " << (api->simulate_key_sequence(id, seq.c_str()) ? 1 : 0);
    } else if (op == "select") {
      size_t i;
      ls >> i;
      obs << "ret " << (api->select_candidate(id, i) ? 1 : 0);
    } else if (op == "select_on_page") {
      size_t i;
      ls >> i;
      obs << "ret " << (api->select_candidate_on_current_page(id, i) ? 1 : 0);
    } else if (op == "highlight") {
      size_t i;
      ls >> i;
      obs << "ret " << (api->highlight_candidate(id, i) ? 1 : 0);
    } else if (op == "page") {
      int back;
      ls >> back;
      obs << "ret " << (api->change_page(id, back) ? 1 : 0);
    } else if (op == "commit") {
      obs << "ret " << (api->commit_composition(id) ? 1 : 0);
    } else if (op == "clear") {
      api->clear_composition(id);
      obs << "unit";
    } else if (op == "get_commit") {
      RIME_STRUCT(RimeCommit, c);
      Bool r = api->get_commit(id, &c);
      obs << "ret " << (r ? 1 : 0) << " text " << esc(c.text);
      api->free_commit(&c);
    } else if (op == "get_context") {
      RIME_STRUCT(RimeContext, c);
      Bool r = api->get_context(id, &c);
      obs << "ret " << (r ? 1 : 0);
      if (r) {
        obs << " comp " << c.composition.length << "," << c.composition.cursor_pos << "," << c.composition.sel_start
            << "," << c.composition.sel_end << "," << esc(c.composition.preedit) << " menu " << c.menu.page_size
            << "," << c.menu.page_no << "," << (c.menu.is_last_page ? 1 : 0) << "," << c.menu.highlighted_candidate_index
            << "," << c.menu.num_candidates << "," << esc(c.menu.select_keys) << " [";
        for (int i = 0; i < c.menu.num_candidates; ++i)
          obs << esc(c.menu.candidates[i].text) << ":" << esc(c.menu.candidates[i].comment) << " ";
        obs << "] preview " << esc(c.commit_text_preview);
        api->free_context(&c);
      }
    } else if (op == "get_status") {
      RIME_STRUCT(RimeStatus, st);
      Bool r = api->get_status(id, &st);
      obs << "ret " << (r ? 1 : 0);
      if (r) {
        obs << " " << esc(st.schema_id) << " " << esc(st.schema_name) << " flags " << !!st.is_disabled << !!st.is_composing
            << !!st.is_ascii_mode << !!st.is_full_shape << !!st.is_simplified << !!st.is_traditional << !!st.is_ascii_punct;
        api->free_status(&st);
      }
    } else if (op == "set_option") {
      std::string name;
      int v;
      ls >> name >> v;
      api->set_option(id, name.c_str(), v);
      obs << "unit";
    } else if (op == "get_option") {
      std::string name;
      ls >> name;
      obs << "ret " << (api->get_option(id, name.c_str()) ? 1 : 0);
    } else if (op == "set_property") {
      std::string name, v;
      ls >> name >> v;
      api->set_property(id, name.c_str(), v.c_str());
      obs << "unit";
    } else if (op == "get_property") {
      std::string name;
      ls >> name;
      char buf[256];
      memset(buf, 0, sizeof buf);
      Bool r = api->get_property(id, name.c_str(), buf, sizeof buf);
      obs << "ret " << (r ? 1 : 0) << " " << esc(r ? buf : nullptr);
    } else if (op == "select_schema") {
      std::string sid;
      ls >> sid;
      obs << "ret " << (api->select_schema(id, sid.c_str()) ? 1 : 0);
    } else if (op == "get_schema") {
      char buf[256];
      memset(buf, 0, sizeof buf);
      Bool r = api->get_current_schema(id, buf, sizeof buf);
      obs << "ret " << (r ? 1 : 0) << " " << esc(r ? buf : nullptr);
    } else if (op == "set_input") {
      std::string v;
      ls >> v;
      obs << "ret " << (api->set_input(id, v.c_str()) ? 1 : 0);
    } else if (op == "get_input") {
      obs << esc(api->get_input(id)) << " caret " << api->get_caret_pos(id);
    } else if (op == "set_caret") {
      size_t p;
      ls >> p;
      api->set_caret_pos(id, p);
      obs << "unit";
    } else {
      obs << "BADOP";
    }
    std::cout << lineno << "|" << lg << "|" << op << "|" << k << "|" << live << "|" << obs.str() << "\n";
  }
  std::cout.flush();
  api->cleanup_all_sessions();
  env.stop();
  return 0;
}
