"""Shared plumbing for the deployment checks C12/C13 (no model logic).

Synthetic workspaces are rendered from a small Python state; deployments are
run with the real `rime_deployer --build` of a hooks-on build of /repo's
working tree; artefacts are observed through harness/dep/deptool.cc (the real
Load functions) and kill points come from the guarded RIME_VERIF_CRASHPOINT
hook ($VERIF_CRASH_AT) and from the LD_PRELOAD interposer killpoint.c
($VERIF_KILL_AT).
"""
import os
import shutil
import sys

HERE = os.path.dirname(os.path.abspath(__file__))
sys.path.insert(0, os.path.join(os.path.dirname(os.path.dirname(HERE)), "lib"))
import vlib  # noqa: E402

BUFSZ = 8191  # libstdc++ basic_filebuf flushes BUFSIZ-1 bytes at a time (observed: writev of 8190+1)


class Tools:
    def __init__(self, flavour="plain"):
        self.build = vlib.librime_build(flavour)
        san = flavour == "asan"
        # private snapshot of the freshly built binaries: the shared build directory may be relinked by another
        # check (after a commit to /repo) while this run is still killing and redeploying
        snap = os.path.join(vlib.CACHE, "run.%d" % os.getpid(), "snap-" + flavour)
        os.makedirs(os.path.join(snap, "lib"), exist_ok=True)
        os.makedirs(os.path.join(snap, "bin"), exist_ok=True)
        with vlib.Lock(os.path.join(self.build, ".verif.lock")):
            for f in os.listdir(os.path.join(self.build, "lib")):
                src = os.path.join(self.build, "lib", f)
                dst = os.path.join(snap, "lib", f)
                if os.path.lexists(dst):
                    os.remove(dst)
                if os.path.islink(src):
                    os.symlink(os.readlink(src), dst)
                elif f.startswith("librime"):
                    shutil.copy2(src, dst)
            shutil.copy2(os.path.join(self.build, "bin", "rime_deployer"), os.path.join(snap, "bin", "rime_deployer"))
        self.snap = snap
        self.deployer = os.path.join(snap, "bin", "rime_deployer")
        self.deptool = os.path.join(snap, "bin", "deptool")
        vlib.cxx_build(self.deptool, [os.path.join(HERE, "deptool.cc")], flags="-I%s/src" % self.build,
                       libs="-L%s/lib -lrime -lglog -Wl,-rpath,%s/lib" % (snap, snap), san=san)
        self.killso = os.path.join(vlib.WORK, "bin", "killpoint.so")
        src = os.path.join(HERE, "killpoint.c")
        if not os.path.exists(self.killso) or os.path.getmtime(self.killso) < os.path.getmtime(src):
            os.makedirs(os.path.dirname(self.killso), exist_ok=True)   # a run against another tree starts with an empty work area
            tmpso = "%s.tmp%d" % (self.killso, os.getpid())
            vlib.sh("gcc -shared -fPIC -O1 -o %s %s -ldl" % (tmpso, src), check=True, timeout=120)
            os.replace(tmpso, self.killso)
        self.env = {"GLOG_logtostderr": "1", "ASAN_OPTIONS": "detect_leaks=0", "UBSAN_OPTIONS": "print_stacktrace=1",
                    "LD_LIBRARY_PATH": os.path.join(snap, "lib") + (":" + os.environ["LD_LIBRARY_PATH"] if os.environ.get("LD_LIBRARY_PATH") else "")}

    # -- deployment
    def deploy(self, ws, crash_at=None, crashlog=None, deplog=None, kill_at=None, killlog=None, preload=False, timeout=600):
        env = dict(self.env)
        if crash_at is not None:
            env["VERIF_DEPLOY_CRASH_AT"] = str(crash_at)
        if crashlog:
            env["VERIF_DEPLOY_CRASHLOG"] = crashlog
        if deplog:
            env["VERIF_DEPLOG"] = deplog
        if preload or kill_at is not None or killlog:
            env["LD_PRELOAD"] = self.killso
            env["VERIF_KILL_DIR"] = os.path.join(ws, "user")
        if kill_at is not None:
            env["VERIF_KILL_AT"] = str(kill_at)
        if killlog:
            env["VERIF_KILLLOG"] = killlog
        rc, out, err = vlib.sh2([self.deployer, "--build", os.path.join(ws, "user"), os.path.join(ws, "shared"),
                                 os.path.join(ws, "user", "build")], env=env, timeout=timeout)
        return rc, err

    def resident(self, ws, deplog=None):
        """a frontend process that stays alive between deployments (deptool resident); -> object with deploy() / close()"""
        import subprocess
        env = dict(os.environ)
        env.update(self.env)
        if deplog:
            env["VERIF_DEPLOG"] = deplog
        p = subprocess.Popen([self.deptool, "resident", os.path.join(ws, "user"), os.path.join(ws, "shared"), os.path.join(ws, "user", "build")],
                             stdin=subprocess.PIPE, stdout=subprocess.PIPE, stderr=subprocess.PIPE, env=env, text=True)

        class Resident:
            def deploy(self_inner):
                try:
                    p.stdin.write("deploy\n")
                    p.stdin.flush()
                    line = p.stdout.readline()
                except BrokenPipeError:
                    line = ""
                if not line.startswith("deployed"):
                    return (p.poll() if p.poll() is not None else -1), (p.stderr.read()[-3000:] if p.poll() is not None else "no answer")
                return 0, ""

            def close(self_inner):
                try:
                    p.stdin.close()
                    p.wait(timeout=60)
                except Exception:
                    p.kill()
        return Resident()

    def startup(self, ws, full=False, deplog=None, timeout=600):
        """the frontends' start-up deployment (API: start_maintenance(full) + join) in a fresh process -> (rc, started)"""
        env = dict(self.env)
        if deplog:
            env["VERIF_DEPLOG"] = deplog
        rc, out, err = vlib.sh2([self.deptool, "startup", os.path.join(ws, "user"), os.path.join(ws, "shared"),
                                 os.path.join(ws, "user", "build"), "full" if full else "check"], env=env, timeout=timeout)
        return rc, ("started=1" in out), err

    def probe(self, ws):
        rc, out, err = vlib.sh2([self.deptool, "probe-all", os.path.join(ws, "user", "build")], env=self.env, timeout=600)
        res = {}
        for l in out.split("\n"):
            f = l.split(" ", 2)
            if len(f) == 3:
                res[f[0]] = (f[1], f[2])
        return res

    def info(self, ws):
        """-> (schema_list or None, {schema: dict(dict=, prism=, packs=[], deps=[])}) as the compiled configs say"""
        rc, out, err = vlib.sh2([self.deptool, "info", os.path.join(ws, "user", "build")], env=self.env, timeout=120)
        lst, infos = None, {}
        for l in out.split("\n"):
            f = l.split(" ")
            if f[0] == "list":
                lst = [x for x in f[1:] if x]
            elif f[0] == "schema" and len(f) == 6:
                kv = dict(x.split("=", 1) for x in f[2:])
                infos[f[1]] = dict(dict=None if kv["dict"] == "-" else kv["dict"], prism=None if kv["prism"] == "-" else kv["prism"],
                                   packs=[] if kv["packs"] == "-" else kv["packs"].split(","),
                                   deps=[] if kv["deps"] == "-" else kv["deps"].split(","))
        return lst, infos

    def dump(self, ws, texts=None):
        """-> (rc, {artefact: section text}); texts: file with extra reverse-lookup keys"""
        cmd = [self.deptool, "dump", os.path.join(ws, "user", "build")] + ([texts] if texts else [])
        rc, out, err = vlib.sh2(cmd, env=self.env, timeout=900)
        secs, cur = {}, None
        for l in out.split("\n"):
            f = l.split(" ")
            if f[0] in ("table", "prism", "reverse", "yaml", "other") and len(f) >= 2 and not l.startswith(" "):
                cur = f[1]
                secs[cur] = []
            if cur is not None:
                secs[cur].append(l)
        return rc, {k: "\n".join(v).rstrip("\n") for k, v in secs.items()}


# ---------------------------------------------------------------------------
# synthetic workspaces
# ---------------------------------------------------------------------------

def q(s):
    return '"' + s.replace("\\", "\\\\").replace('"', '\\"') + '"'


def render_default(schema_list):
    return "config_version: \"1.0\"\nschema_list:\n" + "".join("  - schema: %s\n" % s for s in schema_list)


def render_schema(sid, s):
    t = "schema:\n  schema_id: %s\n  name: %s\n  version: \"1.0\"\n" % (sid, sid.upper())
    if s.get("deps"):
        t += "  dependencies:\n" + "".join("    - %s\n" % d for d in s["deps"])
    t += ("engine:\n  processors:\n    - speller\n    - express_editor\n  segmentors:\n    - abc_segmentor\n"
          "  translators:\n    - script_translator\n")
    if s.get("pad") is not None:
        t += "notes:\n" + "".join("  - %s\n" % x for x in s["pad"])
    t += "speller:\n  alphabet: abcdefghijklmnopqrstuvwxyz\n"
    if s.get("include_algebra"):
        t += "  algebra:\n    __include: inc:/algebra\n"        # the algebra comes from a third file
    elif s.get("algebra"):
        t += "  algebra:\n" + "".join("    - %s\n" % q(a) for a in s["algebra"])
    for sec in ("punctuator", "key_binder", "recognizer"):
        if sec in (s.get("presets") or []):
            t += "%s:\n  import_preset: mypunct\n" % sec         # LegacyPresetConfigPlugin: a third file
    t += "translator:\n  dictionary: %s\n" % s["dict"]
    if s.get("prism"):
        t += "  prism: %s\n" % s["prism"]
    if s.get("packs"):
        t += "  packs:\n" + "".join("    - %s\n" % p for p in s["packs"])
    return t


def render_dict(name, d):
    t = "---\nname: %s\nversion: \"1\"\nsort: %s\n" % (name, d.get("sort", "by_weight"))
    if d.get("imports"):
        t += "import_tables:\n" + "".join("  - %s\n" % i for i in d["imports"])
    if d.get("vocabulary"):
        t += "vocabulary: %s\n" % d["vocabulary"]
    t += "...\n\n"
    for text, code, w in d["rows"]:
        t += text + "\t" + code + ("" if w is None else "\t%d" % w) + "\n"
    return t


def render(state):
    """state -> {relative path: text}.  state keys:
    schema_list [ids]; schemas {id: {dict, prism?, packs[], algebra[], deps[], pad?}};
    dicts {name: {rows[(text, code, weight|None)], imports[], vocabulary?: name, sort?}};
    custom {id|'default': {path: value}} (rendered as <id>.custom.yaml patch, in user/);
    vocab {name: [(text, weight)]} (rendered as shared/<name>.txt);
    preset {punct[], bindings[], patterns[]} (shared/mypunct.yaml, named by `import_preset` of schemas with presets[]);
    inc {algebra[]} (shared/inc.yaml, __include'd by schemas with include_algebra);
    user_default [ids] / user_schemas {id: ...} / user_dicts {name: ...}: copies in the user
    directory that shadow the shared files of the same name (the resolvers look there first)."""
    files = {}
    files["shared/default.yaml"] = render_default(state["schema_list"])
    for sid, s in state["schemas"].items():
        files["shared/%s.schema.yaml" % sid] = render_schema(sid, s)
    for name, d in state["dicts"].items():
        files["shared/%s.dict.yaml" % name] = render_dict(name, d)
    if state.get("user_default") is not None:
        files["user/default.yaml"] = render_default(state["user_default"])
    for sid, s in state.get("user_schemas", {}).items():
        files["user/%s.schema.yaml" % sid] = render_schema(sid, s)
    for name, d in state.get("user_dicts", {}).items():
        files["user/%s.dict.yaml" % name] = render_dict(name, d)
    for cid, patch in state.get("custom", {}).items():
        t = "patch:\n"
        for k, v in patch.items():
            if isinstance(v, list):
                t += "  %s:\n" % q(k) + "".join("    - %s\n" % (q(x) if isinstance(x, str) else
                                                               "{" + ", ".join("%s: %s" % kv for kv in x.items()) + "}") for x in v)
            else:
                t += "  %s: %s\n" % (q(k), q(v))
        files["user/%s.custom.yaml" % cid] = t
    for name, rows in state.get("vocab", {}).items():
        files["shared/%s.txt" % name] = "".join("%s\t%d\n" % r for r in rows)
    if state.get("preset") is not None:
        pr = state["preset"]
        t = "punctuator:\n  half_shape:\n" + "".join("    %s: %s\n" % (q(k), q(v)) for k, v in pr["punct"])
        t += "key_binder:\n  bindings:\n" + "".join("    - {accept: %s, send: %s, when: composing}\n" % (q(a), b) for a, b in pr["bindings"])
        t += "recognizer:\n  patterns:\n" + "".join("    %s: %s\n" % (k, q(v)) for k, v in pr["patterns"])
        files["shared/mypunct.yaml"] = t
    if state.get("inc") is not None:
        files["shared/inc.yaml"] = "algebra:\n" + "".join("  - %s\n" % q(a) for a in state["inc"]["algebra"])
    return files


def materialise(ws, state, mtimes=None, base=1500000000):
    if callable(state):
        os.makedirs(os.path.join(ws, "shared"), exist_ok=True)
        os.makedirs(os.path.join(ws, "user"), exist_ok=True)
        return state(ws)
    return materialise_state(ws, state, mtimes, base)


def materialise_state(ws, state, mtimes=None, base=1500000000):
    """(re)write the source files of `state` under ws/{shared,user}; source files
    that are no longer part of the state are deleted.  mtimes: {relpath: seconds};
    files without an entry get base + index."""
    files = render(state)
    os.makedirs(os.path.join(ws, "shared"), exist_ok=True)
    os.makedirs(os.path.join(ws, "user"), exist_ok=True)
    for sub in ("shared", "user"):
        for f in os.listdir(os.path.join(ws, sub)):
            rel = sub + "/" + f
            p = os.path.join(ws, rel)
            if os.path.isfile(p) and rel not in files and f not in ("user.yaml", "installation.yaml"):
                os.remove(p)
    for i, (rel, text) in enumerate(sorted(files.items())):
        p = os.path.join(ws, rel)
        data = text.encode("utf-8")
        old = None
        try:
            old = open(p, "rb").read()
        except FileNotFoundError:
            pass
        if old != data:
            with open(p, "wb") as f:
                f.write(data)
        t = (mtimes or {}).get(rel, base + i)
        os.utime(p, ns=(t * 10**9, t * 10**9))
    return files


def copy_ws(src, dst):
    if os.path.exists(dst):
        shutil.rmtree(dst)
    shutil.copytree(src, dst, copy_function=shutil.copy2)


def small_state():
    """a tiny but structurally rich workspace: two schemas sharing one dictionary
    (different prisms), an imported table, a pack, a preset vocabulary, a patch."""
    return {
        "schema_list": ["t", "u"],
        "schemas": {
            "t": {"dict": "t", "packs": ["tp"], "algebra": ["abbrev/^([a-z]).+$/$1/", "derive/^zh/z/"], "deps": ["v"]},
            "u": {"dict": "t", "prism": "u", "algebra": ["xform/^b/p/"]},
            "v": {"dict": "vd", "algebra": []},
        },
        "dicts": {
            "t": {"rows": [("甲", "jia", 10), ("乙", "yi", 5), ("丙丁", "bing ding", 3), ("中", "zhong", 9),
                           ("一二三四五", "yi er san si wu", 1)],
                  "imports": ["tx"], "vocabulary": "voc"},
            "tx": {"rows": [("戊", "wu", 2), ("己庚", "ji geng", None)]},
            "tp": {"rows": [("辛", "xin", 4), ("甲乙", "jia yi", 2)]},
            "vd": {"rows": [("壬", "ren", 1)]},
        },
        "custom": {"t": {"speller/delimiter": " '", "menu/page_size": "7"}},
        "vocab": {"voc": [("甲", 100), ("甲乙", 50), ("己庚", 7)]},
    }


def bigyaml_state(npad=400, tune=0):
    """one schema whose compiled YAML spans several stdio buffers: `notes` is a long
    block list of plain scalars sorted before `schema`/`speller`/`translator`; the
    width of its first item is tuned (see tune_bigyaml) so that a buffer boundary
    falls exactly on a line end."""
    pad = ["n" + "x" * (8 + tune)] + ["note%04d" % i for i in range(npad)]
    return {
        "schema_list": ["big"],
        "schemas": {"big": {"dict": "bd", "algebra": ["abbrev/^([a-z]).+$/$1/"] + ["derive/^%s/%s/" % (c, c.upper()) for c in "abcdefghij"],
                            "pad": pad}},
        "dicts": {"bd": {"rows": [("甲", "jia", 10), ("乙", "yi", 5), ("丙丁", "bing ding", 3)]}},
    }


def tune_bigyaml(T, scratch, npad=1200):
    """-> (state, compiled_size, cut) with compiled big.schema.yaml[cut-1] == '\\n' for cut = BUFSZ"""
    ws = os.path.join(scratch, "tune")
    st = bigyaml_state(npad, 0)
    shutil.rmtree(ws, ignore_errors=True)
    materialise(ws, st)
    rc, err = T.deploy(ws)
    y = open(os.path.join(ws, "user", "build", "big.schema.yaml"), "rb").read()
    # last line end at or before BUFSZ inside the notes block
    i = y.rfind(b"\n", 0, BUFSZ) + 1
    tune = BUFSZ - i
    st = bigyaml_state(npad, tune)
    shutil.rmtree(ws, ignore_errors=True)
    materialise(ws, st)
    T.deploy(ws)
    y = open(os.path.join(ws, "user", "build", "big.schema.yaml"), "rb").read()
    shutil.rmtree(ws, ignore_errors=True)
    return st, len(y), (y[BUFSZ - 1:BUFSZ] == b"\n")


def texts_of(dump):
    out = set()
    for sec in dump.values():
        for l in sec.split("\n"):
            if l.startswith("  entry "):
                out.add(l[8:].split("\t")[0])
    return out


def read_points(path):
    pts = []
    try:
        for l in open(path):
            f = l.rstrip("\n").split(" ", 1)
            if len(f) == 2:
                pts.append((int(f[0]), f[1]))
    except FileNotFoundError:
        pass
    return pts


BIN_KINDS = ("table", "prism", "reverse")


def sweep(T, scratch, name, state, pre_state=None, mode="hook", points=None, max_points=None, rng=None, mtimes=None,
          pre_mtimes=None, keep=None, redeploy="full", stamp=None):
    """Kill a deployment of `state` at kill points and check the property's oracle.

    mode 'hook': RIME_VERIF_CRASHPOINT ordinals; 'sys': file-system calls (LD_PRELOAD).
    pre_state: deploy it completely first, then edit the sources to `state` (redeploy scenario).
    redeploy 'full': the next deployment is `rime_deployer --build` (WorkspaceUpdate unconditionally);
             'startup': it is the frontends' start-up path, RimeStartMaintenance(False) through the API in a fresh
             process, which deploys only if DetectModifications finds a source newer than var/last_build_time.
    stamp: with a pre_state, the value var/last_build_time is set to after the pre-state deployment (the synthetic
           mtimes lie in the past; the stamp must lie between the pre-state's and the edit's).
    Returns dict(points_total, points_run, sites, failures=[...], outcomes)."""
    base = os.path.join(scratch, name)
    shutil.rmtree(base, ignore_errors=True)
    os.makedirs(base)
    ref = os.path.join(base, "ref")
    materialise(ref, state, mtimes)
    rc, err = T.deploy(ref)
    res = dict(name=name, mode=mode, failures=[], outcomes={}, sites={}, points_total=0, points_run=0, observations=[],
               all_points=[], redeploy=redeploy, startup_started=0, startup_skipped=0)
    if rc != 0:
        res["failures"].append(dict(kind="clean-deploy-failed", point=0, site="-", detail=err[-2000:]))
        return res
    rcd, ref_dump = T.dump(ref)
    texts = texts_of(ref_dump)
    tfile = os.path.join(base, "texts.txt")
    start = os.path.join(base, "start")
    pre_dump = {}
    if pre_state is not None:
        materialise(start, pre_state, pre_mtimes)
        rc, err = T.deploy(start)
        if rc != 0:
            res["failures"].append(dict(kind="pre-deploy-failed", point=0, site="-", detail=err[-2000:]))
            return res
        _, pre_dump = T.dump(start)
        texts |= texts_of(pre_dump)
        if stamp is not None:
            with open(os.path.join(start, "user", "user.yaml"), "w") as f:
                f.write("var:\n  last_build_time: %d\n" % stamp)
        materialise(start, state, mtimes)
    else:
        materialise(start, state, mtimes)
    # reverse dbs are dumped over a fixed key set so that their sections do not depend on the tables' state
    with open(tfile, "w") as f:
        f.write("".join(t + "\n" for t in sorted(texts)))
    _, ref_dump = T.dump(ref, tfile)
    if pre_state is not None:
        _, pre_dump = T.dump(start, tfile)  # the build directory still holds the pre-state artefacts
    # enumerate kill points of an uninterrupted run from the start state
    cnt = os.path.join(base, "count")
    copy_ws(start, cnt)
    log = os.path.join(base, "points.txt")
    if mode == "hook":
        rc, err = T.deploy(cnt, crashlog=log)
    else:
        rc, err = T.deploy(cnt, killlog=log)
    pts = read_points(log)
    res["points_total"] = len(pts)
    res["all_points"] = pts
    res["final_sizes"] = {f: os.path.getsize(os.path.join(cnt, "user", "build", f))
                          for f in sorted(os.listdir(os.path.join(cnt, "user", "build")))}
    _, inc_dump = T.dump(cnt, tfile)
    if rc != 0 or inc_dump != ref_dump:
        # incremental deploy differs from clean deploy: C12's business, but it invalidates the reference
        bad = sorted(k for k in set(ref_dump) | set(inc_dump) if ref_dump.get(k) != inc_dump.get(k) and (k in ref_dump))
        if rc != 0 or bad:
            res["failures"].append(dict(kind="uninterrupted-redeploy-differs-from-clean", point=0, site="-",
                                        detail=dict(rc=rc, artefacts=bad)))
    for n, site in pts:
        key = site.split(" ")[0] if mode == "hook" else " ".join(site.split(" ")[:1])
        res["sites"][key] = res["sites"].get(key, 0) + 1
    sel = pts
    if points is not None:
        sel = [p for p in pts if p[0] in set(points)]
    elif max_points is not None and len(pts) > max_points:
        # stratified: first/last occurrence of every site kind + random fill
        first, last = {}, {}
        for n, site in pts:
            k = site.split(" ")[0]
            first.setdefault(k, n)
            last[k] = n
        must = sorted(set(first.values()) | set(last.values()))
        if len(must) > max_points:
            must = sorted(rng.sample(must, max_points))
        rest = [p[0] for p in pts if p[0] not in set(must)]
        fill = rng.sample(rest, max(0, min(len(rest), max_points - len(must))))
        chosen = set(must) | set(fill)
        sel = [p for p in pts if p[0] in chosen]
    run = os.path.join(base, "run")
    for n, site in sel:
        copy_ws(start, run)
        if mode == "hook":
            rc, err = T.deploy(run, crash_at=n)
        else:
            rc, err = T.deploy(run, kill_at=n)
        res["points_run"] += 1
        if rc != 137:
            res["failures"].append(dict(kind="kill-did-not-fire", point=n, site=site, detail="rc=%d" % rc))
            continue
        probe = T.probe(run)
        rck, kdump = T.dump(run, tfile)
        fails = []
        for f, (kind, what) in sorted(probe.items()):
            oc = "%s:%s" % (kind, what.split(" ")[0])
            res["outcomes"][oc] = res["outcomes"].get(oc, 0) + 1
            if what.startswith("CRASH"):
                fails.append(dict(kind="load-crash:" + kind, artefact=f, detail=what))
            elif kind in BIN_KINDS and what.startswith("accept") and rck == 0:
                sec = kdump.get(f)
                if sec is None or (sec != ref_dump.get(f) and sec != pre_dump.get(f)):
                    fails.append(dict(kind="partial-accepted:" + kind, artefact=f, detail=what,
                                      content=(sec or "<dump failed>")[:1500]))
        if rck != 0:
            fails.append(dict(kind="dump-crash-after-kill", artefact="-", detail="deptool dump rc=%d" % rck))
        left = {f: os.path.getsize(os.path.join(run, "user", "build", f)) for f in sorted(os.listdir(os.path.join(run, "user", "build")))} \
            if os.path.isdir(os.path.join(run, "user", "build")) else {}
        res["observations"].append((n, site, {f: v for f, v in probe.items()}, left))
        dlog = os.path.join(base, "deplog.txt")
        if os.path.exists(dlog):
            os.remove(dlog)
        if redeploy == "startup":
            rc2, started, err2 = T.startup(run, full=False, deplog=dlog)
            res["startup_started" if started else "startup_skipped"] += 1
        else:
            rc2, err2 = T.deploy(run, deplog=dlog)
        # the window between table->Save() and the reverse db: an accepted table whose reverse db is missing or
        # rejected must make the next deployment decide rebuild_table=1 for that dictionary
        try:
            dlines = [l.split(" ") for l in open(dlog)]
        except FileNotFoundError:
            dlines = []
        for f, (kind, what) in sorted(probe.items()):
            if kind == "table" and what.startswith("accept"):
                dn = f[:-len(".table.bin")]
                rv = probe.get(dn + ".reverse.bin")
                decided = [l for l in dlines if l[0] == "dict" and l[1] == dn and len(l) > 4]
                if decided and (rv is None or not rv[1].startswith("accept")):
                    res["reverse_window_points"] = res.get("reverse_window_points", 0) + 1
                    if not all("rebuild_table=1" in l for l in decided[:1]):
                        fails.append(dict(kind="reverse-window-not-rebuilt", artefact=dn + ".reverse.bin",
                                          detail=dict(table=what, reverse=rv, decision=" ".join(decided[0]).strip())))
        if rc2 != 0:
            fails.append(dict(kind="redeploy-failed", artefact="-", detail="rc=%d %s" % (rc2, err2[-1500:])))
        rcd2, fdump = T.dump(run, tfile)
        for f in sorted(set(ref_dump) | set(fdump)):
            if f in ref_dump:
                if fdump.get(f) != ref_dump[f]:
                    k = f.split(".", 1)[1] if "." in f else f
                    fails.append(dict(kind="stale-after-redeploy:" + k, artefact=f,
                                      detail=dict(left_by_kill=left.get(f), probe=probe.get(f),
                                                  got=(fdump.get(f) or "<missing>")[:1200], want=ref_dump[f][:1200])))
            elif f not in pre_dump:
                fails.append(dict(kind="leftover-after-redeploy", artefact=f, detail=(fdump.get(f) or "")[:300]))
        for fl in fails:
            fl.update(point=n, site=site, files_left_by_kill=left, scenario=name, mode=mode)
            res["failures"].append(fl)
        if fails and keep:
            copy_ws(run, os.path.join(keep, "%s-%s-%d" % (name, mode, n)))
    shutil.rmtree(base, ignore_errors=True)
    return res
