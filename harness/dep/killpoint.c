/* LD_PRELOAD kill-point interposer for the deployment checks (C12/C13).
 *
 * Counts the file-system calls that modify files below $VERIF_KILL_DIR
 * (write, writev, pwrite, ftruncate, truncate, rename, unlink, msync, close of
 * such a file) and ends the process with _exit(137) immediately AFTER the
 * call whose ordinal equals $VERIF_KILL_AT - the state a `kill -9` arriving
 * between two system calls leaves behind (user-space buffers are lost, every
 * completed call and every store into a shared mapping stays in the page
 * cache).  With $VERIF_KILLLOG set each counted call is appended to that file
 * as "<n> <call> <path> <size>".
 */
#define _GNU_SOURCE
#include <dlfcn.h>
#include <fcntl.h>
#include <stdarg.h>
#include <stdio.h>
#include <stdlib.h>
#include <string.h>
#include <sys/mman.h>
#include <sys/types.h>
#include <sys/uio.h>
#include <unistd.h>

static long counter = 0;
static long kill_at = -2;
static const char* kill_dir = NULL;
static int log_fd = -2;

static void init(void) {
  if (kill_at != -2) return;
  const char* a = getenv("VERIF_KILL_AT");
  kill_at = a ? atol(a) : -1;
  kill_dir = getenv("VERIF_KILL_DIR");
  const char* l = getenv("VERIF_KILLLOG");
  log_fd = l ? open(l, O_WRONLY | O_CREAT | O_APPEND, 0644) : -1;
}

static int under(const char* path) {
  init();
  return kill_dir && path && strncmp(path, kill_dir, strlen(kill_dir)) == 0;
}

static int fd_path(int fd, char* buf, size_t n) {
  char link[64];
  snprintf(link, sizeof link, "/proc/self/fd/%d", fd);
  ssize_t r = readlink(link, buf, n - 1);
  if (r <= 0) return 0;
  buf[r] = 0;
  return 1;
}

static void point(const char* call, const char* path, long size) {
  ++counter;
  if (log_fd >= 0) {
    char line[4400];
    int n = snprintf(line, sizeof line, "%ld %s %s %ld\n", counter, call, path, size);
    static ssize_t (*real_write)(int, const void*, size_t) = NULL;
    if (!real_write) real_write = dlsym(RTLD_NEXT, "write");
    real_write(log_fd, line, n);
  }
  if (counter == kill_at) _exit(137);
}

#define REAL(name) \
  static __typeof__(name)* real = NULL; \
  if (!real) real = dlsym(RTLD_NEXT, #name)

ssize_t write(int fd, const void* buf, size_t n) {
  REAL(write);
  ssize_t r = real(fd, buf, n);
  char p[4096];
  if (fd > 2 && fd != log_fd && fd_path(fd, p, sizeof p) && under(p)) point("write", p, (long)r);
  return r;
}

ssize_t writev(int fd, const struct iovec* iov, int cnt) {
  REAL(writev);
  ssize_t r = real(fd, iov, cnt);
  char p[4096];
  if (fd > 2 && fd_path(fd, p, sizeof p) && under(p)) point("writev", p, (long)r);
  return r;
}

ssize_t pwrite(int fd, const void* buf, size_t n, off_t off) {
  REAL(pwrite);
  ssize_t r = real(fd, buf, n, off);
  char p[4096];
  if (fd > 2 && fd_path(fd, p, sizeof p) && under(p)) point("pwrite", p, (long)r);
  return r;
}

ssize_t pwrite64(int fd, const void* buf, size_t n, off64_t off) {
  REAL(pwrite64);
  ssize_t r = real(fd, buf, n, off);
  char p[4096];
  if (fd > 2 && fd_path(fd, p, sizeof p) && under(p)) point("pwrite", p, (long)r);
  return r;
}

int ftruncate(int fd, off_t len) {
  REAL(ftruncate);
  int r = real(fd, len);
  char p[4096];
  if (fd_path(fd, p, sizeof p) && under(p)) point("ftruncate", p, (long)len);
  return r;
}

int ftruncate64(int fd, off64_t len) {
  REAL(ftruncate64);
  int r = real(fd, len);
  char p[4096];
  if (fd_path(fd, p, sizeof p) && under(p)) point("ftruncate", p, (long)len);
  return r;
}

int truncate(const char* path, off_t len) {
  REAL(truncate);
  int r = real(path, len);
  if (under(path)) point("truncate", path, (long)len);
  return r;
}

int truncate64(const char* path, off64_t len) {
  REAL(truncate64);
  int r = real(path, len);
  if (under(path)) point("truncate", path, (long)len);
  return r;
}

int rename(const char* a, const char* b) {
  REAL(rename);
  int r = real(a, b);
  if (under(a) || under(b)) point("rename", b, r);
  return r;
}

int unlink(const char* path) {
  REAL(unlink);
  int r = real(path);
  if (under(path)) point("unlink", path, r);
  return r;
}

int msync(void* addr, size_t len, int flags) {
  REAL(msync);
  int r = real(addr, len, flags);
  init();
  if (kill_dir) point("msync", "-", (long)len);
  return r;
}

int close(int fd) {
  REAL(close);
  char p[4096];
  int counted = 0;
  if (fd > 2 && fd != log_fd && fd_path(fd, p, sizeof p) && under(p)) {
    /* only files opened for writing matter */
    int fl = fcntl(fd, F_GETFL);
    counted = fl >= 0 && (fl & O_ACCMODE) != O_RDONLY;
  }
  int r = real(fd);
  if (counted) point("close", p, r);
  return r;
}
