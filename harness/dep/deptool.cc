// Shared harness for C12/C13: offers build artefacts to the real loaders of
// librime (Table::Load, Prism::Load, ReverseDb::Load, Config::LoadFromFile) and
// prints canonical observations.  No model logic here.
//
//   deptool probe-all <builddir>
//       one line per artefact (sorted by file name); each artefact is loaded
//       in a forked child so that a crash inside Load is observed, not fatal:
//         <file> table   accept dict=<crc> syllables=<n> entries=<n>
//         <file> prism   accept dict=<crc> schema=<crc>
//         <file> reverse accept dict=<crc>
//         <file> yaml    parsed build_info=<0|1> ts=<k=v,...> keys=<k,...>
//         <file> <kind>  reject            (Load returned false / YAML parse failed)
//         <file> <kind>  CRASH sig=<n>|exit=<n>
//   deptool startup <user> <shared> <staging> <check|full>
//       RimeStartMaintenance(full_check) + join through the public API (the frontends' start-up path)
//   deptool resident <user> <shared> <staging>
//       one process that deploys (full check, through the API) each time it reads "deploy" on stdin
//   deptool info <builddir>
//       schema_list / dictionary / prism / packs / dependencies as the compiled configs state them
//   deptool dump <builddir> [<texts file: one text per line, extra reverse lookups>]
//       canonical, timestamp-free content of every artefact (decompiled
//       tables, prism spelling maps, reverse lookups, compiled YAML minus
//       __build_info/timestamps).
#include <dirent.h>
#include <sys/wait.h>
#include <unistd.h>
#include <algorithm>
#include <cmath>
#include <cstdio>
#include <cstring>
#include <functional>
#include <iostream>
#include <queue>
#include <set>
#include <sstream>
#include <string>
#include <vector>

#include <rime_api.h>
#include <rime/common.h>
#include <rime/config.h>
#include <rime/algo/spelling.h>
#include <rime/dict/prism.h>
#include <rime/dict/reverse_lookup_dictionary.h>
#include <rime/dict/table.h>

using std::string;
using std::vector;

static bool ends_with(const string& s, const string& x) {
  return s.size() >= x.size() && s.compare(s.size() - x.size(), x.size(), x) == 0;
}

static vector<string> list_dir(const string& d) {
  vector<string> v;
  if (DIR* dir = opendir(d.c_str())) {
    while (dirent* e = readdir(dir)) {
      string n = e->d_name;
      if (n != "." && n != "..") v.push_back(n);
    }
    closedir(dir);
  }
  std::sort(v.begin(), v.end());
  return v;
}

static const char* kind_of(const string& f) {
  if (ends_with(f, ".table.bin")) return "table";
  if (ends_with(f, ".prism.bin")) return "prism";
  if (ends_with(f, ".reverse.bin")) return "reverse";
  if (ends_with(f, ".yaml")) return "yaml";
  return nullptr;
}

// ---------------------------------------------------------------- probe

static void probe_one(const string& dir, const string& f, const char* kind) {
  rime::path p(dir + "/" + f);
  string k(kind);
  if (k == "table") {
    rime::Table t(p);
    if (t.Load())
      printf("%s table accept dict=%u syllables=%u entries=%u\n", f.c_str(), t.dict_file_checksum(),
             t.metadata()->num_syllables, t.metadata()->num_entries);
    else
      printf("%s table reject\n", f.c_str());
  } else if (k == "prism") {
    rime::Prism t(p);
    if (t.Load())
      printf("%s prism accept dict=%u schema=%u\n", f.c_str(), t.dict_file_checksum(), t.schema_file_checksum());
    else
      printf("%s prism reject\n", f.c_str());
  } else if (k == "reverse") {
    rime::ReverseDb t(p);
    if (t.Load())
      printf("%s reverse accept dict=%u\n", f.c_str(), t.dict_file_checksum());
    else
      printf("%s reverse reject\n", f.c_str());
  } else {
    rime::Config c;
    if (!c.LoadFromFile(p)) {
      printf("%s yaml reject\n", f.c_str());
    } else {
      string keys, ts;
      bool bi = false;
      if (auto root = rime::As<rime::ConfigMap>(c.GetItem(""))) {
        for (auto it = root->begin(); it != root->end(); ++it) keys += (keys.empty() ? "" : ",") + it->first;
      }
      if (auto m = c.GetMap("__build_info")) bi = true;
      if (auto m = c.GetMap("__build_info/timestamps")) {
        for (auto it = m->begin(); it != m->end(); ++it) {
          auto v = rime::As<rime::ConfigValue>(it->second);
          ts += (ts.empty() ? "" : ",") + it->first + "=" + (v ? v->str() : "?");
        }
      }
      printf("%s yaml parsed build_info=%d ts=%s keys=%s\n", f.c_str(), bi ? 1 : 0, ts.empty() ? "-" : ts.c_str(),
             keys.empty() ? "-" : keys.c_str());
    }
  }
  fflush(stdout);
}

static int probe_all(const string& dir) {
  for (const string& f : list_dir(dir)) {
    const char* kind = kind_of(f);
    if (!kind) continue;
    fflush(stdout);
    pid_t pid = fork();
    if (pid == 0) {
      probe_one(dir, f, kind);
      _exit(0);
    }
    int st = 0;
    waitpid(pid, &st, 0);
    if (WIFSIGNALED(st))
      printf("%s %s CRASH sig=%d\n", f.c_str(), kind, WTERMSIG(st));
    else if (WEXITSTATUS(st) != 0)
      printf("%s %s CRASH exit=%d\n", f.c_str(), kind, WEXITSTATUS(st));
    fflush(stdout);
  }
  return 0;
}

// ---------------------------------------------------------------- dump

static string code_str(rime::Table* table, const rime::Code& code) {
  string s;
  for (auto id : code) s += (s.empty() ? "" : " ") + table->GetSyllableById(id);
  return s;
}

static void access(rime::Table* table, rime::TableAccessor accessor, vector<string>* texts) {
  while (!accessor.exhausted()) {
    string word = table->GetEntryText(*accessor.entry());
    texts->push_back(word);
    printf("  entry %s\t%s\t%.6g\n", word.c_str(), code_str(table, accessor.code()).c_str(),
           (double)accessor.entry()->weight);
    accessor.Next();
  }
}

static void recursion(rime::Table* table, rime::TableQuery* query, vector<string>* texts) {
  for (uint32_t i = 0; i < table->metadata()->num_syllables; i++) {
    access(table, query->Access(i), texts);
    if (query->Advance(i)) {
      if (query->level() < 3)
        recursion(table, query, texts);
      else
        access(table, query->Access(0), texts);
      query->Backdate();
    }
  }
}

static void dump_table(const string& dir, const string& f, std::set<string>* all_texts) {
  rime::Table t(rime::path(dir + "/" + f));
  if (!t.Load()) {
    printf("table %s UNLOADABLE\n", f.c_str());
    return;
  }
  printf("table %s syllables=%u entries=%u\n", f.c_str(), t.metadata()->num_syllables, t.metadata()->num_entries);
  for (uint32_t i = 0; i < t.metadata()->num_syllables; ++i) printf("  syllable %u %s\n", i, t.GetSyllableById(i).c_str());
  vector<string> texts;
  rime::TableQuery q(t.metadata()->index.get());
  recursion(&t, &q, &texts);
  all_texts->insert(texts.begin(), texts.end());
}

static void dump_prism(const string& dir, const string& f) {
  rime::Prism p(rime::path(dir + "/" + f));
  if (!p.Load()) {
    printf("prism %s UNLOADABLE\n", f.c_str());
    return;
  }
  printf("prism %s\n", f.c_str());
  // enumerate all keys of the double array by breadth-first traversal over byte values
  struct N { string key; size_t pos; };
  std::queue<N> q;
  q.push({"", 0});
  vector<std::pair<string, int>> keys;
  while (!q.empty()) {
    N n = q.front();
    q.pop();
    for (int c = 1; c < 256; ++c) {
      string k = n.key + (char)c;
      size_t kpos = n.key.size(), npos = n.pos;
      int r = p.trie().traverse(k.c_str(), npos, kpos);
      if (r <= -2) continue;
      q.push({k, npos});
      if (r >= 0) keys.push_back({k, r});
    }
  }
  std::sort(keys.begin(), keys.end());
  for (auto& kv : keys) {
    printf("  spelling %s =", kv.first.c_str());
    rime::SpellingAccessor a = p.QuerySpelling(kv.second);
    while (!a.exhausted()) {
      auto props = a.properties();
      printf(" (%d,%d,%.6g,%s)", (int)a.syllable_id(), (int)props.type, props.credibility, props.tips.c_str());
      a.Next();
    }
    printf("\n");
  }
}

static void dump_reverse(const string& dir, const string& f, const std::set<string>& texts) {
  rime::ReverseDb r(rime::path(dir + "/" + f));
  if (!r.Load()) {
    printf("reverse %s UNLOADABLE\n", f.c_str());
    return;
  }
  printf("reverse %s\n", f.c_str());
  for (const string& t : texts) {
    string res;
    if (r.Lookup(t, &res)) printf("  lookup %s -> %s\n", t.c_str(), res.c_str());
  }
}

static void dump_yaml(const string& dir, const string& f) {
  rime::Config c;
  if (!c.LoadFromFile(rime::path(dir + "/" + f))) {
    printf("yaml %s UNLOADABLE\n", f.c_str());
    return;
  }
  c.SetItem("__build_info/timestamps", nullptr);
  std::ostringstream out;
  c.SaveToStream(out);
  printf("yaml %s\n%s\n", f.c_str(), out.str().c_str());
}

static int dump(const string& dir, const char* texts_file) {
  std::set<string> texts;
  if (texts_file) {
    // fixed lookup set for the reverse dbs, independent of the state of the tables
    if (FILE* f = fopen(texts_file, "r")) {
      char buf[4096];
      while (fgets(buf, sizeof buf, f)) {
        string t(buf);
        while (!t.empty() && (t.back() == '\n' || t.back() == '\r')) t.pop_back();
        if (!t.empty()) texts.insert(t);
      }
      fclose(f);
    }
  }
  vector<string> files = list_dir(dir);
  for (const string& f : files)
    if (ends_with(f, ".table.bin")) dump_table(dir, f, &texts);
  for (const string& f : files)
    if (ends_with(f, ".prism.bin")) dump_prism(dir, f);
  for (const string& f : files)
    if (ends_with(f, ".reverse.bin")) dump_reverse(dir, f, texts);
  for (const string& f : files)
    if (ends_with(f, ".yaml")) dump_yaml(dir, f);
  for (const string& f : files)
    if (!kind_of(f)) printf("other %s\n", f.c_str());
  return 0;
}

// ---------------------------------------------------------------- info
// what the compiled configs say (the YAML parser as an external function):
//   list <schema ids...>                                from default.yaml
//   schema <file id> dict=<d|-> prism=<p|-> packs=<a,b|-> deps=<a,b|->
static string join_list(rime::Config& c, const string& path) {
  string out;
  if (auto l = c.GetList(path)) {
    for (auto it = l->begin(); it != l->end(); ++it) {
      if (auto v = rime::As<rime::ConfigValue>(*it)) out += (out.empty() ? "" : ",") + v->str();
    }
  }
  return out.empty() ? "-" : out;
}

static int info(const string& dir) {
  for (const string& f : list_dir(dir)) {
    if (!ends_with(f, ".yaml")) continue;
    rime::Config c;
    if (!c.LoadFromFile(rime::path(dir + "/" + f))) continue;
    if (f == "default.yaml") {
      string ids;
      if (auto l = c.GetList("schema_list")) {
        for (auto it = l->begin(); it != l->end(); ++it) {
          auto m = rime::As<rime::ConfigMap>(*it);
          if (!m) continue;
          auto v = m->GetValue("schema");
          if (v) ids += (ids.empty() ? "" : " ") + v->str();
        }
      }
      printf("list %s\n", ids.c_str());
    } else if (ends_with(f, ".schema.yaml")) {
      string d, p;
      bool hd = c.GetString("translator/dictionary", &d);
      bool hp = c.GetString("translator/prism", &p);
      printf("schema %s dict=%s prism=%s packs=%s deps=%s\n", f.substr(0, f.size() - 12).c_str(), hd ? d.c_str() : "-",
             hp ? p.c_str() : "-", join_list(c, "translator/packs").c_str(), join_list(c, "schema/dependencies").c_str());
    }
  }
  return 0;
}

// ---------------------------------------------------------------- startup
// the ordinary start-up deployment of a frontend, in this (fresh) process:
// RimeStartMaintenance(full_check) + join - with full_check = False the deployment
// runs only if DetectModifications finds a source newer than var/last_build_time
static int startup(const char* user, const char* shared, const char* staging, bool full) {
  RimeApi* api = rime_get_api();
  RIME_STRUCT(RimeTraits, traits);
  traits.shared_data_dir = shared;
  traits.user_data_dir = user;
  traits.staging_dir = staging;
  traits.distribution_name = "verif";
  traits.distribution_code_name = "verif";
  traits.distribution_version = "0";
  traits.app_name = "rime.verif";
  traits.log_dir = "";
  traits.min_log_level = 3;
  api->setup(&traits);
  api->initialize(&traits);
  Bool started = api->start_maintenance(full ? True : False);
  if (started) api->join_maintenance_thread();
  api->finalize();
  printf("startup started=%d\n", started ? 1 : 0);
  return 0;
}

// ---------------------------------------------------------------- resident
// a frontend that stays alive between deployments (round 3): one process, the library set up once; every line
// "deploy" on stdin runs initialize + RimeStartMaintenance(full_check = True) + join + finalize and answers
// "deployed started=<0|1>".  Whatever the library remembers inside the process between two deployments
// (function-local statics, component pools that survive finalize) is thereby part of the deployment history.
static int resident(const char* user, const char* shared, const char* staging) {
  RimeApi* api = rime_get_api();
  RIME_STRUCT(RimeTraits, traits);
  traits.shared_data_dir = shared;
  traits.user_data_dir = user;
  traits.staging_dir = staging;
  traits.distribution_name = "verif";
  traits.distribution_code_name = "verif";
  traits.distribution_version = "0";
  traits.app_name = "rime.verif";
  traits.log_dir = "";
  traits.min_log_level = 3;
  api->setup(&traits);
  string line;
  while (std::getline(std::cin, line)) {
    if (line != "deploy") continue;
    api->initialize(&traits);
    Bool started = api->start_maintenance(True);
    if (started) api->join_maintenance_thread();
    api->finalize();
    printf("deployed started=%d\n", started ? 1 : 0);
    fflush(stdout);
  }
  return 0;
}

int main(int argc, char** argv) {
  if (argc == 5 && !strcmp(argv[1], "resident")) return resident(argv[2], argv[3], argv[4]);
  if (argc == 6 && !strcmp(argv[1], "startup")) return startup(argv[2], argv[3], argv[4], !strcmp(argv[5], "full"));
  if (argc == 3 && !strcmp(argv[1], "info")) return info(argv[2]);
  if (argc == 3 && !strcmp(argv[1], "probe-all")) return probe_all(argv[2]);
  if ((argc == 3 || argc == 4) && !strcmp(argv[1], "dump")) return dump(argv[2], argc == 4 ? argv[3] : nullptr);
  fprintf(stderr, "usage: deptool probe-all|dump <builddir>\n");
  return 2;
}
