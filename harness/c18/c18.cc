// C18 harness: the real code behind the same case lines as ocaml/c18/driver.ml.
//   H <op>;<op>;...   API history over 3 RimeConfig objects (public C API: config_init,
//                     config_set_*, config_get_*, config_clear, config_create_list/map,
//                     config_list_size, config_get_item/set_item, iterators); after every
//                     call the three trees are dumped through rime::Config::GetItem("").
//   T <tree>          rime::ConfigData::SaveToStream of the tree, LoadFromStream of the bytes
//   Y <hexdoc>        LoadFromStream of a document
//   F <op>;<op>;...   file-based save/load history of ONE rime::Config in the directory $VERIF_C18_DIR (round 3):
//                       ld:<hexdoc> LoadFromStream   ss:<hexpath>:<hexval> SetString   ed:<hexpath>:<hexkey>:<hexval> in-place
//                       edit of the container a getter hands out (GetMap(path)->Set / GetList(path)->Append)
//                       sf:<name> SaveToFile   lf:<name> LoadFromFile   sv Save()   rf:<name> load <name> into a FRESH
//                       ConfigData and print its tree.  After every op: <result>|<tree of the config>.
// One output line per case, same canonical format as the model driver.
#include "../common/rime_env.h"
#include <rime/config.h>
#include <rime/config/config_data.h>
#include <rime/config/config_types.h>
#include <glog/logging.h>
#include <iostream>
#include <sstream>

using namespace rime;
using vh::hex;
using vh::unhex;

static void show(an<ConfigItem> it, std::string& o) {
  if (!it || it->type() == ConfigItem::kNull) {
    o += 'N';
  } else if (it->type() == ConfigItem::kScalar) {
    o += 'S';
    o += hex(As<ConfigValue>(it)->str());
    o += ';';
  } else if (it->type() == ConfigItem::kList) {
    o += "L(";
    auto l = As<ConfigList>(it);
    bool first = true;
    for (auto i = l->begin(); i != l->end(); ++i) {
      if (!first) o += ',';
      first = false;
      show(*i, o);
    }
    o += ')';
  } else {
    o += "M(";
    auto m = As<ConfigMap>(it);
    bool first = true;
    for (auto i = m->begin(); i != m->end(); ++i) {
      if (!first) o += ',';
      first = false;
      o += hex(i->first);
      o += '=';
      show(i->second, o);
    }
    o += ')';
  }
}

static const char* P;
static an<ConfigItem> parse() {
  if (*P == 'N') {
    ++P;
    return nullptr;
  }
  if (*P == 'S') {
    ++P;
    std::string h;
    while (*P != ';') h += *P++;
    ++P;
    return New<ConfigValue>(unhex(h));
  }
  if (*P == 'L') {
    P += 2;
    auto l = New<ConfigList>();
    while (*P != ')') {
      l->Append(parse());
      if (*P == ',') ++P;
    }
    ++P;
    return l;
  }
  if (*P == 'M') {
    P += 2;
    auto m = New<ConfigMap>();
    while (*P != ')') {
      std::string h;
      while (*P != '=') h += *P++;
      ++P;
      m->Set(unhex(h), parse());
      if (*P == ',') ++P;
    }
    ++P;
    return m;
  }
  fprintf(stderr, "bad tree syntax\n");
  exit(2);
}

static std::vector<std::string> split(const std::string& s, char sep) {
  std::vector<std::string> out;
  std::string cur;
  for (char c : s) {
    if (c == sep) {
      out.push_back(cur);
      cur.clear();
    } else {
      cur += c;
    }
  }
  out.push_back(cur);
  return out;
}

static std::string load_doc(const std::string& doc) {
  ConfigData d;
  std::istringstream is(doc);
  if (!d.LoadFromStream(is)) return "!";
  std::string o;
  show(d.root, o);
  return o;
}

static std::string run_file_history(const std::string& body) {
  const char* d = getenv("VERIF_C18_DIR");
  std::string dir = d ? d : ".";
  Config cfg;
  std::string out;
  bool first = true;
  for (const std::string& op : split(body, ';')) {
    if (op.empty()) continue;
    auto f = split(op, ':');
    const std::string& k = f[0];
    std::string r;
    auto B = [](bool b) { return std::string(b ? "B1" : "B0"); };
    if (k == "ld") {
      std::istringstream is(unhex(f[1]));
      r = B(cfg.LoadFromStream(is));
    } else if (k == "ss") {
      r = B(cfg.SetString(unhex(f[1]), unhex(f[2])));
    } else if (k == "ed") {
      std::string path = unhex(f[1]);
      if (auto m = cfg.GetMap(path)) {
        r = B(m->Set(unhex(f[2]), New<ConfigValue>(unhex(f[3]))));
      } else if (auto l = cfg.GetList(path)) {
        r = B(l->Append(New<ConfigValue>(unhex(f[3]))));
      } else {
        r = "B0";
      }
    } else if (k == "sf") {
      r = B(cfg.SaveToFile(path(dir) / f[1]));
    } else if (k == "lf") {
      r = B(cfg.LoadFromFile(path(dir) / f[1]));
    } else if (k == "sv") {
      r = B(cfg.Save());
    } else if (k == "rf") {
      ConfigData fresh;
      if (fresh.LoadFromFile(path(dir) / f[1], nullptr)) {
        r = "R";
        show(fresh.root, r);
      } else {
        r = "R!";
      }
    } else {
      r = "??";
    }
    if (!first) out += ' ';
    first = false;
    out += r;
    out += '|';
    show(cfg.GetItem(""), out);
  }
  return out;
}

static std::string run_history(RimeApi* api, const std::string& body) {
  RimeConfig cfg[3] = {{nullptr}, {nullptr}, {nullptr}};
  for (auto& c : cfg) api->config_init(&c);
  std::string out;
  bool first = true;
  for (const std::string& op : split(body, ';')) {
    if (op.empty()) continue;
    auto f = split(op, ':');
    const std::string& k = f[0];
    RimeConfig* c = &cfg[std::stoi(f[1])];
    std::string path = f.size() > 2 ? unhex(f[2]) : "";
    const char* p = path.c_str();
    std::string r;
    auto B = [](Bool b) { return std::string(b ? "B1" : "B0"); };
    if (k == "ss") {
      r = B(api->config_set_string(c, p, unhex(f[3]).c_str()));
    } else if (k == "sd") {
      r = B(api->config_set_double(c, p, std::strtod(unhex(f[3]).c_str(), nullptr)));
    } else if (k == "si") {
      r = B(api->config_set_int(c, p, std::stoi(f[3])));
    } else if (k == "sb") {
      r = B(api->config_set_bool(c, p, f[3] == "1" ? True : False));
    } else if (k == "cl") {
      r = B(api->config_clear(c, p));
    } else if (k == "ml") {
      r = B(api->config_create_list(c, p));
    } else if (k == "mm") {
      r = B(api->config_create_map(c, p));
    } else if (k == "gs") {
      std::vector<char> buf(8192, 'X');
      if (api->config_get_string(c, p, buf.data(), buf.size())) {
        r = "S" + hex(std::string(buf.data()));
        const char* cs = api->config_get_cstring(c, p);
        if (!cs || std::string(cs) != std::string(buf.data())) r += "?cstring-differs";
      } else {
        r = "S!";
        if (api->config_get_cstring(c, p)) r += "?cstring-differs";
      }
    } else if (k == "gi") {
      int v = 12345;
      r = api->config_get_int(c, p, &v) ? "I" + std::to_string(v) : "I!";
    } else if (k == "gb") {
      Bool v = False;
      r = api->config_get_bool(c, p, &v) ? (v ? "F1" : "F0") : "F!";
    } else if (k == "gd") {
      double v = 0;
      char b[64];
      if (api->config_get_double(c, p, &v)) {
        snprintf(b, sizeof b, "D%.17g", v);
        r = b;
      } else {
        r = "D!";
      }
    } else if (k == "ls") {
      r = "Z" + std::to_string(api->config_list_size(c, p));
    } else if (k == "it") {
      r = B(api->config_get_item(c, p, &cfg[std::stoi(f[3])]));
    } else if (k == "st") {
      r = B(api->config_set_item(c, p, &cfg[std::stoi(f[3])]));
    } else if (k == "il" || k == "im") {
      RimeConfigIterator it;
      Bool ok = k == "il" ? api->config_begin_list(&it, c, p) : api->config_begin_map(&it, c, p);
      if (!ok) {
        r = "P!";
      } else {
        r = "P";
        bool f1 = true;
        while (api->config_next(&it)) {
          if (!f1) r += ",";
          f1 = false;
          r += hex(std::string(it.key)) + "=" + hex(std::string(it.path));
        }
        api->config_end(&it);
      }
    } else if (k == "sl") {
      Config* cc = reinterpret_cast<Config*>(c->ptr);
      std::ostringstream os;
      cc->SaveToStream(os);
      std::istringstream is(os.str());
      bool ok = cc->LoadFromStream(is);
      r = (ok ? "Y1" : "Y0") + hex(os.str());
    } else {
      r = "??";
    }
    if (!first) out += ' ';
    first = false;
    out += r;
    out += '|';
    for (int i = 0; i < 3; ++i) {
      if (i) out += '/';
      show(reinterpret_cast<Config*>(cfg[i].ptr)->GetItem(""), out);
    }
  }
  for (auto& c : cfg) api->config_close(&c);
  return out;
}

int main() {
  FLAGS_minloglevel = 3;  // keep LOG(INFO)/LOG(ERROR) text off stderr
  RimeApi* api = rime_get_api();
  std::string line;
  while (std::getline(std::cin, line)) {
    if (line.size() < 2) {
      std::cout << "BADLINE\n";
      continue;
    }
    std::string body = line.substr(2);
    if (line[0] == 'H') {
      std::cout << run_history(api, body) << "\n";
    } else if (line[0] == 'F') {
      std::cout << run_file_history(body) << "\n";
    } else if (line[0] == 'T') {
      P = body.c_str();
      ConfigData d;
      d.root = parse();
      std::ostringstream os;
      bool saved = d.SaveToStream(os);
      std::string doc = os.str();
      std::cout << (saved ? hex(doc) : std::string("SAVEFAILED")) << ". " << load_doc(doc) << " -\n";
    } else if (line[0] == 'Y') {
      std::cout << load_doc(unhex(body)) << "\n";
    } else {
      std::cout << "BADLINE\n";
    }
    std::cout.flush();
  }
  return 0;
}
