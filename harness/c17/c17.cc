// C17 harness: the real UserDbMerger, UserDbImporter (through UserDictManager::Import),
// UserDbHelper::UniformBackup/UniformRestore and UserDictManager::Backup/Restore/Export/
// Import/Synchronize on LevelDB user dictionaries of several "installations" that share
// one sync directory, all below <root>.
//
// usage: c17 <root> <case-file> [direct|stack]
//   direct: the `merge` op constructs the UserDbMerger by placement-new over storage filled
//           with the case's garbage word g (so an uninitialised member reads g);
//   stack : the `merge` op uses an ordinary automatic object (used under valgrind).
//
// case file (one command per line):
//   CASE <id> <g>          start a case (wipes <root>)
//   DB <i> <tickhex|->     create installation i's dictionary "dict" (user id u<i>)
//   ENT <i> <keyhex> <valuehex>
//   FILE <s> <hex|->       write text file slot s
//   SHOW                   dump every dictionary ("I <case> db0 <dump> | db1 ...")
//   OP backup i | restore i j | restoref i s | sync i | export i s | import i s | merge i j | ubackup i s | urestore i s
//   PAINT                  fill the stack below the current frame with g before every later op
//   END                    dump everything
//   U <hex>                UserDbValue::Unpack on a default value:  "U <ok> <commits> <tick>"
//   P <commits> <tick>     UserDbValue::Pack with dee = 0:          "P <hex>"
// observation lines:
//   V <hex RIME_VERSION>
//   O <case> <opidx> <ret> [order=..] db<i> <dump>
//   B <case> <opidx> <restore ret> <dump>   after backup/sync/ubackup: the written snapshot restored into a fresh empty dictionary
//   E <case> db0 <dump> | ... | s<i>=<hex snapshot> ... | f<s>=<hex file> ...
//   dump := tick=<hex|-> uid=<hex|-> name=<hex|-> type=<hex|-> n=<k> <keyhex>:<commits>:<tick> ...
#include "../common/rime_env.h"

#include <rime/common.h>
#include <rime/deployer.h>
#include <rime/registry.h>
#include <rime/service.h>
#include <rime/dict/db_utils.h>
#include <rime/dict/level_db.h>
#include <rime/dict/user_db.h>
#include <rime/lever/user_dict_manager.h>

#include <filesystem>
#include <iostream>
#include <new>
#include <sstream>

namespace fs = std::filesystem;
using namespace rime;
using vh::hex;
using vh::unhex;

static std::string g_root;
static int g_garbage = 0;
static bool g_direct = true;
static bool g_paint = false;
static const int kMaxUsers = 8;
static const int kMaxFiles = 8;
static const char* kDict = "dict";

static std::string uid(int i) { return "u" + std::to_string(i); }
static fs::path user_dir(int i) { return fs::path(g_root) / ("user" + std::to_string(i)); }
static fs::path sync_dir() { return fs::path(g_root) / "sync"; }
static fs::path file_slot(int s) { return fs::path(g_root) / "files" / ("f" + std::to_string(s) + ".txt"); }
static fs::path snap_path(int j) { return sync_dir() / uid(j) / (std::string(kDict) + ".userdb.txt"); }
static fs::path db_path(int i) { return user_dir(i) / (std::string(kDict) + ".userdb"); }

static std::string hexo(const std::string& s) { return s.empty() ? "-" : hex(s); }
static std::string unhexo(const std::string& h) { return h == "-" ? std::string() : unhex(h); }

// switch the process to installation i: the global deployer carries its identity and the
// "userdb" component is re-created so that its resolver points at i's user data directory
static void use_user(int i) {
  Deployer& d(Service::instance().deployer());
  d.user_id = uid(i);
  d.user_data_dir = path(user_dir(i));
  d.sync_dir = path(sync_dir());
  fs::create_directories(user_dir(i));
  Registry::instance().Register("userdb", new UserDbComponent<LevelDb>);
}

static std::string slurp(const fs::path& p) {
  std::ifstream f(p, std::ios::binary);
  std::stringstream ss;
  ss << f.rdbuf();
  return ss.str();
}

static std::string dump_db(int i) {
  std::ostringstream out;
  if (!fs::exists(db_path(i)))
    return "absent";
  UserDbWrapper<LevelDb> db(path(db_path(i)), kDict);
  if (!db.OpenReadOnly())
    return "unopenable";
  const char* keys[4] = {"/tick", "/user_id", "/db_name", "/db_type"};
  const char* labels[4] = {"tick", "uid", "name", "type"};
  for (int k = 0; k < 4; ++k) {
    string v;
    bool has = db.MetaFetch(keys[k], &v);
    out << labels[k] << "=" << (has ? hexo(v) : "-") << " ";
  }
  std::vector<std::string> rows;
  {
    an<DbAccessor> a = db.Query("");
    string k, v;
    while (a && a->GetNextRecord(&k, &v)) {
      if (!k.empty() && k[0] == '\x01')
        continue;  // metadata record
      UserDbValue val(v);
      rows.push_back(hexo(k) + ":" + std::to_string(val.commits) + ":" + std::to_string(val.tick));
    }
  }
  db.Close();
  out << "n=" << rows.size();
  for (auto& r : rows) out << " " << r;
  return out.str();
}

// round-trip probe: restore the snapshot just written into a fresh, empty dictionary of a scratch
// installation (UserDictManager::Restore) and dump it
static const int kProbeUser = kMaxUsers - 1;
static std::string probe_restore(const fs::path& snapshot) {
  fs::remove_all(user_dir(kProbeUser));
  use_user(kProbeUser);
  Deployer& deployer(Service::instance().deployer());
  UserDictManager mgr(&deployer);
  bool ok = mgr.Restore(path(snapshot));
  std::string d = dump_db(kProbeUser);
  fs::remove_all(user_dir(kProbeUser));
  return std::string(ok ? "1 " : "0 ") + d;
}

// overwrite the stack region the next calls will use with the garbage word
__attribute__((noinline)) static void paint_stack() {
  volatile int buf[16384];
  for (size_t k = 0; k < sizeof(buf) / sizeof(buf[0]); ++k) buf[k] = g_garbage;
  asm volatile("" ::: "memory");
}

static std::string do_op(const std::vector<std::string>& f) {
  const std::string& name = f[1];
  int i = std::stoi(f[2]);
  int x = f.size() > 3 && f[3].find('=') == std::string::npos ? std::stoi(f[3]) : -1;
  use_user(i);
  Deployer& deployer(Service::instance().deployer());
  std::ostringstream ret;
  if (g_paint) paint_stack();
  if (name == "backup") {
    UserDictManager mgr(&deployer);
    ret << (mgr.Backup(kDict) ? 1 : 0);
  } else if (name == "restore") {
    if (!fs::exists(snap_path(x))) {
      ret << "nofile";
    } else {
      UserDictManager mgr(&deployer);
      ret << (mgr.Restore(path(snap_path(x))) ? 1 : 0);
    }
  } else if (name == "leftover") {
    // a Restore of snapshot x by installation i that was killed after it had filled its scratch db: <user dir>/.temp.userdb
    // stays behind with the snapshot's records (the opening steps of UserDictManager::Restore, without the clean-up)
    if (!fs::exists(snap_path(x))) {
      ret << "nofile";
    } else {
      the<Db> temp(UserDb::Require("userdb")->Create(".temp"));
      if (temp->Exists()) temp->Remove();
      bool ok = temp->Open() && temp->Restore(path(snap_path(x)));
      temp->Close();
      ret << (ok ? 1 : 0);
    }
  } else if (name == "restoref") {
    if (!fs::exists(file_slot(x))) {
      ret << "nofile";
    } else {
      UserDictManager mgr(&deployer);
      ret << (mgr.Restore(path(file_slot(x))) ? 1 : 0);
    }
  } else if (name == "sync") {
    std::string order;
    if (fs::exists(sync_dir())) {
      for (fs::directory_iterator it(sync_dir()), end; it != end; ++it) {
        if (!fs::is_directory(it->path())) continue;
        std::string d = it->path().filename().string();
        if (fs::exists(it->path() / (std::string(kDict) + ".userdb.txt")) && d.size() > 1 && d[0] == 'u')
          order += (order.empty() ? "" : ",") + d.substr(1);
      }
    }
    UserDictManager mgr(&deployer);
    ret << (mgr.Synchronize(kDict) ? 1 : 0) << " order=" << order;
  } else if (name == "export") {
    UserDictManager mgr(&deployer);
    ret << mgr.Export(kDict, path(file_slot(x)));
  } else if (name == "import") {
    if (!fs::exists(file_slot(x))) {
      ret << "nofile";
    } else {
      UserDictManager mgr(&deployer);
      ret << mgr.Import(kDict, path(file_slot(x)));
    }
  } else if (name == "merge") {
    UserDbWrapper<LevelDb> ours(path(db_path(i)), kDict);
    UserDbWrapper<LevelDb> theirs(path(db_path(x)), kDict);
    if (!ours.Open() || !theirs.OpenReadOnly()) {
      ret << "openfail";
    } else {
      int n = 0;
      {
        DbSource source(&theirs);
        if (g_direct) {
          alignas(UserDbMerger) static unsigned char storage[sizeof(UserDbMerger)];
          int* words = reinterpret_cast<int*>(storage);
          for (size_t k = 0; k < sizeof(storage) / sizeof(int); ++k) words[k] = g_garbage;
          UserDbMerger* merger = new (storage) UserDbMerger(&ours);
          n = source >> *merger;
          merger->CloseMerge();
          merger->~UserDbMerger();
        } else {
          UserDbMerger merger(&ours);
          n = source >> merger;
          merger.CloseMerge();
        }
      }
      ours.Close();
      theirs.Close();
      ret << n;
    }
  } else if (name == "foreign") {
    // the db now carries another installation's id (copied in / installation id changed)
    UserDbWrapper<LevelDb> db(path(db_path(i)), kDict);
    if (!db.Open()) {
      ret << "openfail";
    } else {
      ret << (db.MetaUpdate("/user_id", "zz") ? 1 : 0);
      db.Close();
    }
  } else if (name == "ubackup") {
    UserDbWrapper<LevelDb> db(path(db_path(i)), kDict);
    if (!db.OpenReadOnly()) {
      ret << "openfail";
    } else {
      ret << (UserDbHelper(&db).UniformBackup(path(file_slot(x))) ? 1 : 0);
      db.Close();
    }
  } else if (name == "urestore") {
    if (!fs::exists(file_slot(x))) {
      ret << "nofile";
    } else {
      UserDbWrapper<LevelDb> db(path(db_path(i)), kDict);
      if (!db.Open()) {
        ret << "openfail";
      } else {
        ret << (UserDbHelper(&db).UniformRestore(path(file_slot(x))) ? 1 : 0);
        db.Close();
      }
    }
  } else {
    ret << "badop";
  }
  return ret.str();
}

int main(int argc, char** argv) {
  if (argc < 3) {
    fprintf(stderr, "usage: c17 <root> <case-file> [direct|stack]\n");
    return 2;
  }
  g_root = argv[1];
  g_direct = !(argc > 3 && std::string(argv[3]) == "stack");
  fs::remove_all(g_root);
  vh::Env env;
  if (!env.start(g_root + "/shared", g_root + "/user", false)) return 3;
  std::cout << "V " << hex(std::string(env.api->get_version())) << "\n";
  std::ifstream in(argv[2]);
  std::string line, cid;
  int opidx = 0;
  std::vector<int> users;
  while (std::getline(in, line)) {
    std::vector<std::string> f;
    {
      std::istringstream ss(line);
      std::string t;
      while (ss >> t) f.push_back(t);
    }
    if (f.empty()) continue;
    if (f[0] == "CASE") {
      cid = f[1];
      g_garbage = std::stoi(f[2]);
      g_paint = false;
      opidx = 0;
      users.clear();
      for (int i = 0; i < kMaxUsers; ++i) fs::remove_all(user_dir(i));
      fs::remove_all(sync_dir());
      fs::remove_all(fs::path(g_root) / "files");
      fs::create_directories(fs::path(g_root) / "files");
    } else if (f[0] == "DB") {
      int i = std::stoi(f[1]);
      users.push_back(i);
      use_user(i);
      the<Db> db(UserDb::Require("userdb")->Create(kDict));
      if (!db->Open()) {
        std::cout << "X " << cid << " cannot create db " << i << "\n";
        continue;
      }
      if (f[2] != "-") db->MetaUpdate("/tick", unhex(f[2]));
      db->Close();
    } else if (f[0] == "ENT") {
      int i = std::stoi(f[1]);
      UserDbWrapper<LevelDb> db(path(db_path(i)), kDict);
      if (db.Open()) {
        db.Update(unhexo(f[2]), unhexo(f[3]));
        db.Close();
      }
    } else if (f[0] == "ENTS") {
      // ENTS <i> <keyhex> <valuehex> <keyhex> <valuehex> ...   (one open for many records)
      int i = std::stoi(f[1]);
      UserDbWrapper<LevelDb> db(path(db_path(i)), kDict);
      if (db.Open()) {
        for (size_t k = 2; k + 1 < f.size(); k += 2) db.Update(unhexo(f[k]), unhexo(f[k + 1]));
        db.Close();
      }
    } else if (f[0] == "FILE") {
      vh::write_file(file_slot(std::stoi(f[1])).string(), unhexo(f[2]));
    } else if (f[0] == "PAINT") {
      g_paint = true;
    } else if (f[0] == "SHOW") {
      std::cout << "I " << cid;
      for (size_t k = 0; k < users.size(); ++k)
        std::cout << (k ? " |" : "") << " db" << users[k] << " " << dump_db(users[k]);
      std::cout << "\n";
    } else if (f[0] == "OP") {
      std::string r = do_op(f);
      std::cout << "O " << cid << " " << opidx << " " << r << " db" << f[2] << " " << dump_db(std::stoi(f[2])) << "\n";
      // after every backup: what does the written snapshot restore to?
      if ((f[1] == "backup" || f[1] == "sync") && fs::exists(snap_path(std::stoi(f[2]))))
        std::cout << "B " << cid << " " << opidx << " " << probe_restore(snap_path(std::stoi(f[2]))) << "\n";
      else if (f[1] == "ubackup" && f.size() > 3 && fs::exists(file_slot(std::stoi(f[3]))))
        std::cout << "B " << cid << " " << opidx << " " << probe_restore(file_slot(std::stoi(f[3]))) << "\n";
      ++opidx;
    } else if (f[0] == "END") {
      std::cout << "E " << cid;
      for (int i : users) std::cout << " db" << i << " " << dump_db(i) << " |";
      for (int i : users)
        if (fs::exists(snap_path(i))) std::cout << " s" << i << "=" << hexo(slurp(snap_path(i)));
      for (int s = 0; s < kMaxFiles; ++s)
        if (fs::exists(file_slot(s))) std::cout << " f" << s << "=" << hexo(slurp(file_slot(s)));
      std::cout << "\n";
    } else if (f[0] == "U") {
      UserDbValue v;
      bool ok = v.Unpack(unhexo(f[1]));
      std::cout << "U " << (ok ? 1 : 0) << " " << v.commits << " " << v.tick << "\n";
    } else if (f[0] == "P") {
      UserDbValue v;
      v.commits = std::stoi(f[1]);
      v.tick = std::stoull(f[2]);
      std::cout << "P " << hex(v.Pack()) << "\n";
    }
  }
  std::cout << "DONE\n";
  std::cout.flush();
  fs::remove_all(g_root);
  return 0;
}
