// C14 harness: the real config compiler over generated document sets.
//
// usage: c14 <workdir> < cases
// input (one record per line):
//   SET <n>
//   DOC <id> <hex of the YAML text>         file <workdir>/s<n>/user/<id>.yaml
//   ORDER <id> <id> ...                     compile through the production
//                                           "config_builder" component (fresh
//                                           component, Configs kept alive)
//   DIRECT <id>                             one ConfigCompiler with the same
//                                           plugin classes; print every
//                                           resource, then Link the others
//   END
// output: one observation per line, trees printed canonically:
//   null ~   scalar "<hex>"   list [a,b]   map {<hexkey>:v,...} (key order of std::map)
//   O <set> <order#> <pos> <id> MEM <tree> FILE <tree|NOFILE>
//   A <set> <order#> <pos> <id> MEM <tree>      (re-read after the whole order ran)
//   D <set> <id> TARGET <linked:0|1> <tree>
//   R <set> <id> <resid> <loaded> <tree>        (every resource of that compiler)
//   L <set> <id> <resid> <ok> <tree>            (Link of the other loaded resources, same compiler)
// The top-level key __build_info (version and timestamps) is not printed.
#include "../common/rime_env.h"
#include <iostream>
#include <map>
#include <memory>
#include <sstream>
#include <rime/common.h>
#include <rime/config.h>
#include <rime/deployer.h>
#include <rime/module.h>
#include <rime/registry.h>
#include <rime/resource.h>
#include <rime/service.h>
#include <rime/config/config_compiler.h>
#include <rime/config/config_data.h>
#include <rime/config/plugins.h>

using namespace rime;
using vh::hex;

static void canon(const an<ConfigItem>& it, std::string& out, bool top) {
  if (!it || it->type() == ConfigItem::kNull) {
    out += "~";
    return;
  }
  switch (it->type()) {
    case ConfigItem::kScalar:
      out += "\"" + hex(As<ConfigValue>(it)->str()) + "\"";
      break;
    case ConfigItem::kList: {
      auto l = As<ConfigList>(it);
      out += "[";
      bool first = true;
      for (auto i = l->begin(); i != l->end(); ++i) {
        if (!first) out += ",";
        first = false;
        canon(*i, out, false);
      }
      out += "]";
      break;
    }
    case ConfigItem::kMap: {
      auto m = As<ConfigMap>(it);
      out += "{";
      bool first = true;
      for (auto i = m->begin(); i != m->end(); ++i) {
        if (top && i->first == "__build_info") continue;
        if (!first) out += ",";
        first = false;
        out += hex(i->first) + ":";
        if (i->first == "__build_info") {  // version and timestamps are not observable
          out += "{}";
          continue;
        }
        canon(i->second, out, false);
      }
      out += "}";
      break;
    }
    default:
      out += "~";
  }
}
static std::string canon(const an<ConfigItem>& it) {
  std::string s;
  canon(it, s, true);
  return s;
}

// the production chain of core_module.cc, for the DIRECT mode (cross-checked
// against the component's result by the check)
struct Chain : ConfigCompilerPlugin {
  std::vector<std::unique_ptr<ConfigCompilerPlugin>> ps;
  Chain() {
    ps.emplace_back(new AutoPatchConfigPlugin);
    ps.emplace_back(new DefaultConfigPlugin);
    ps.emplace_back(new LegacyPresetConfigPlugin);
    ps.emplace_back(new LegacyDictionaryConfigPlugin);
    ps.emplace_back(new BuildInfoPlugin);
    ps.emplace_back(new SaveOutputPlugin);
  }
  bool ReviewCompileOutput(ConfigCompiler* c, an<ConfigResource> r) override {
    for (auto& p : ps)
      if (!p->ReviewCompileOutput(c, r)) return false;
    return true;
  }
  bool ReviewLinkOutput(ConfigCompiler* c, an<ConfigResource> r) override {
    for (auto& p : ps)
      if (!p->ReviewLinkOutput(c, r)) return false;
    return true;
  }
};

int main(int argc, char** argv) {
  if (argc < 2) {
    fprintf(stderr, "usage: c14 <workdir> < cases\n");
    return 2;
  }
  std::string work = argv[1];
  vh::Env env;
  if (!env.start(work + "/shared0", work + "/user0", false)) return 3;
  RimeModule* core = ModuleManager::instance().Find("core");
  if (!core || !core->initialize) {
    fprintf(stderr, "no core module\n");
    return 3;
  }
  std::string line, setid;
  std::string user, staging;
  int order_no = 0;
  while (std::getline(std::cin, line)) {
    std::istringstream is(line);
    std::string cmd;
    is >> cmd;
    if (cmd == "SET") {
      is >> setid;
      order_no = 0;
      user = work + "/s" + setid + "/user";
      staging = work + "/s" + setid + "/build";
      vh::mkdirs(user);
      vh::mkdirs(staging);
      vh::mkdirs(work + "/s" + setid + "/shared");
      Deployer& d = Service::instance().deployer();
      d.user_data_dir = path(user);
      d.shared_data_dir = path(work + "/s" + setid + "/shared");
      d.staging_dir = path(staging);
      d.prebuilt_data_dir = path(work + "/s" + setid + "/shared/build");
    } else if (cmd == "DOC") {
      std::string id, h;
      is >> id >> h;
      vh::write_file(user + "/" + id + ".yaml", h == "-" ? "" : vh::unhex(h));
    } else if (cmd == "ORDER") {
      std::vector<std::string> ids;
      std::string id;
      while (is >> id) ids.push_back(id);
      core->initialize();  // re-registers config_builder etc. over the current directories
      auto* comp = Config::Require("config_builder");
      std::vector<std::unique_ptr<Config>> held;
      int pos = 0;
      for (auto& i : ids) {
        std::remove((staging + "/" + i + ".yaml").c_str());
        held.emplace_back(comp->Create(i));
        std::string mem = canon(held.back()->GetItem(""));
        std::string file = "NOFILE";
        {
          std::ifstream f(staging + "/" + i + ".yaml");
          if (f.good()) {
            Config c;
            if (c.LoadFromFile(path(staging + "/" + i + ".yaml")))
              file = canon(c.GetItem(""));
            else
              file = "UNREADABLE";
          }
        }
        std::cout << "O " << setid << " " << order_no << " " << pos << " " << i << " MEM " << mem << " FILE " << file << "\n";
        ++pos;
      }
      pos = 0;
      for (auto& i : ids) {
        std::cout << "A " << setid << " " << order_no << " " << pos << " " << i << " MEM " << canon(held[pos]->GetItem("")) << "\n";
        ++pos;
      }
      held.clear();
      ++order_no;
    } else if (cmd == "DIRECT") {
      std::string id;
      is >> id;
      the<ResourceResolver> resolver(Service::instance().CreateResourceResolver({"config", "", ".yaml"}));
      Chain chain;
      ConfigCompiler compiler(resolver.get(), &chain);
      auto resource = compiler.Compile(id);
      bool linked = resource->loaded && compiler.Link(resource);
      std::cout << "D " << setid << " " << id << " TARGET " << (linked ? 1 : 0) << " " << canon(resource->data->root) << "\n";
      std::vector<an<ConfigResource>> rs;
      compiler.EnumerateResources([&](an<ConfigResource> r) { if (r) rs.push_back(r); });
      for (auto& r : rs)
        std::cout << "R " << setid << " " << id << " " << r->resource_id << " " << (r->loaded ? 1 : 0) << " " << canon(r->data->root) << "\n";
      for (auto& r : rs) {
        if (r->resource_id == resource->resource_id || !r->loaded) continue;
        bool ok = compiler.Link(r);
        std::cout << "L " << setid << " " << id << " " << r->resource_id << " " << (ok ? 1 : 0) << " " << canon(r->data->root) << "\n";
      }
    } else if (cmd == "END") {
      std::cout << "E " << setid << "\n";
    }
    std::cout.flush();
  }
  env.stop();
  return 0;
}
