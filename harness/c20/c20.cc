// C20 harness: drive every caller-buffer copy site of the public API over a
// grid of (string length, buffer size) with guard bytes around the buffer and
// print the resulting memory.  One line per case:
//   <site> <n> <hex src> <hex memory before> <hex memory after>
// where memory = the caller's region starting at the destination pointer
// (n buffer bytes followed by GUARD guard bytes).
#include "../common/rime_env.h"
#include <iostream>

using namespace vh;
static const size_t GUARD = 8;

static const size_t FAR = 640;  // bytes behind the guard that must stay untouched as well (a stray write whose offset
                                 // depends on the STRING, not on the buffer size, lands there)

struct Mem {
  std::vector<unsigned char> raw;  // GUARD | n | GUARD | FAR
  size_t n;
  // mode 0: a fixed pattern; mode 1 ("dirty"): the buffer already holds the first n bytes of the value, WITHOUT a
  // terminator - what an earlier call with a larger size, or a fixed-width record field, leaves behind
  Mem(size_t n_, int mode, const std::string& src) : raw(n_ + 2 * GUARD + FAR, 0xA5), n(n_) {
    for (size_t i = 0; i < raw.size(); ++i) raw[i] = static_cast<unsigned char>(0xA5 ^ (i * 7 & 0x0f));
    if (mode == 1)
      for (size_t i = 0; i < n; ++i) raw[GUARD + i] = i < src.size() ? static_cast<unsigned char>(src[i]) : 'x';
  }
  char* dest() { return reinterpret_cast<char*>(raw.data() + GUARD); }
  std::string region() const { return hex(raw.data() + GUARD, n + GUARD); }
  std::string front() const { return hex(raw.data(), GUARD); }
  std::string far() const { return hex(raw.data() + GUARD + n + GUARD, FAR); }
};

template <class F>
static void one(const char* site, const std::string& src, size_t n, F call) {
  for (int mode = 0; mode < 2; ++mode) {
    Mem m(n, mode, src);
    std::string before = m.region(), fb = m.front(), fr = m.far();
    bool copied = call(m.dest(), n);
    if (!copied) {
      std::cout << site << " " << n << " " << hex(src) << " nocopy\n";
      continue;
    }
    std::cout << site << " " << n << " " << (src.empty() ? "-" : hex(src)) << " " << before << " " << m.region()
              << (m.front() == fb ? "" : " FRONTGUARD") << (m.far() == fr ? "" : " FARGUARD") << "\n";
  }
}

int main(int argc, char** argv) {
  if (argc < 4) {
    fprintf(stderr, "usage: c20 <workdir> <maxlen> <maxsize>\n");
    return 2;
  }
  std::string work = argv[1];
  size_t maxlen = atoi(argv[2]), maxsize = atoi(argv[3]);
  std::string shared = work + "/shared", user = work + "/user";
  mkdirs(shared);
  std::vector<std::string> ids = {"a", "schema_twelve", std::string(33, 'z')};
  std::string list;
  for (auto& id : ids) {
    write_file(shared + "/" + id + ".schema.yaml",
               "schema:\n  schema_id: " + id + "\n  name: t\nengine:\n  processors: [fluid_editor]\n"
               "  segmentors: [fallback_segmentor]\n  translators: [echo_translator]\n");
    list += "  - schema: " + id + "\n";
  }
  write_file(shared + "/default.yaml", "config_version: '1'\nschema_list:\n" + list);
  Env env;
  if (!env.start(shared, user, true)) {
    fprintf(stderr, "deploy failed\n");
    return 3;
  }
  RimeApi* api = env.api;
  RimeSessionId s = api->create_session();
  // --- get_current_schema
  for (auto& id : ids) {
    if (!api->select_schema(s, id.c_str())) {
      fprintf(stderr, "select_schema %s failed\n", id.c_str());
      return 4;
    }
    for (size_t n = 1; n <= id.size() + 6 && n <= maxsize + 34; ++n)
      one("RimeGetCurrentSchema", id, n, [&](char* d, size_t k) { return api->get_current_schema(s, d, k) != 0; });
  }
  // --- get_property / config_get_string
  RimeConfig cfg = {0};
  api->config_init(&cfg);
  // values: plain ASCII of every length, and UTF-8 text whose multi-byte characters
  // (2, 3 and 4 bytes) fall on every cut position, so that a truncation routine that
  // looks at character boundaries is exercised as well
  static const char* kChars[] = {"\xe4\xb8\xad", "a", "\xf0\xa0\x80\x80", "\xc3\xa9"};
  for (size_t len = 0; len <= maxlen; ++len) {
    std::vector<std::string> values;
    std::string v;
    for (size_t i = 0; i < len; ++i) v += static_cast<char>('a' + (i * 5 + len) % 26);
    values.push_back(v);
    for (size_t phase = 0; phase < 4 && len >= 2; ++phase) {
      std::string u;
      for (size_t k = phase; u.size() + strlen(kChars[k % 4]) <= len; ++k) u += kChars[k % 4];
      while (u.size() < len) u += 'z';
      if (u != v) values.push_back(u);
    }
    // values that end in a line break (YAML block scalars do): "drop the final line break" style post-processing
    if (len >= 1) {
      std::string w = v;
      w[len - 1] = '\n';
      values.push_back(w);
      if (len >= 2) {
        w[len - 2] = '\r';
        values.push_back(w);
      }
    }
    for (auto& val : values) {
      api->set_property(s, "verif_prop", val.c_str());
      api->config_set_string(&cfg, "verif/key", val.c_str());
      for (size_t n = 1; n <= maxsize; ++n) {
        if (&val != &values[0] && n > len + 2) break;  // UTF-8 variants: sizes around and below the length
        one("RimeGetProperty", val, n, [&](char* d, size_t k) { return api->get_property(s, "verif_prop", d, k) != 0; });
        one("RimeConfigGetString", val, n,
            [&](char* d, size_t k) { return api->config_get_string(&cfg, "verif/key", d, k) != 0; });
      }
    }
  }
  api->config_close(&cfg);
  api->destroy_session(s);
  // --- directory getters, for several path lengths
  for (size_t len : {size_t(1), size_t(6), size_t(23), maxlen + 3}) {
    std::string sh = "/" + std::string(len, 's'), us = "/" + std::string(len + 1, 'u'),
                pb = "/" + std::string(len + 2, 'p'), st = "/" + std::string(len + 3, 't');
    RIME_STRUCT(RimeTraits, t);
    t.shared_data_dir = sh.c_str();
    t.user_data_dir = us.c_str();
    t.prebuilt_data_dir = pb.c_str();
    t.staging_dir = st.c_str();
    api->deployer_initialize(&t);
    std::string sync = api->get_sync_dir(), usync;
    char big[4096];
    memset(big, 0, sizeof big);
    api->get_user_data_sync_dir(big, sizeof big - 1);
    usync = big;
    for (size_t n = 1; n <= len + 12; ++n) {
      one("RimeGetSharedDataDirSecure", sh, n, [&](char* d, size_t k) { api->get_shared_data_dir_s(d, k); return true; });
      one("RimeGetUserDataDirSecure", us, n, [&](char* d, size_t k) { api->get_user_data_dir_s(d, k); return true; });
      one("RimeGetPrebuiltDataDirSecure", pb, n, [&](char* d, size_t k) { api->get_prebuilt_data_dir_s(d, k); return true; });
      one("RimeGetStagingDirSecure", st, n, [&](char* d, size_t k) { api->get_staging_dir_s(d, k); return true; });
    }
    for (size_t n = 1; n <= sync.size() + 6; ++n)
      one("RimeGetSyncDirSecure", sync, n, [&](char* d, size_t k) { api->get_sync_dir_s(d, k); return true; });
    for (size_t n = 1; n <= usync.size() + 6; ++n)
      one("RimeGetUserDataSyncDir", usync, n, [&](char* d, size_t k) { api->get_user_data_sync_dir(d, k); return true; });
  }
  env.stop();
  return 0;
}
