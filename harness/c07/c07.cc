// C07 harness: the real rime::ScriptTranslator / rime::TableTranslator (through rime::Translation objects) on
// generated dictionaries deployed by the real rime_deployer.
//
//   c07 <shared_dir> <user_dir> <staging_dir> <casefile>
// casefile lines:
//   S <schema_id> <script|table>     apply the schema, create the translator, dump prism + table + options
//   I <hex input | ->                query the translator of the current schema with this input
// Output (canonical text only: no addresses, no log text; floats/doubles as bit patterns):
//   schema <id> kind=<k> ok=<0/1> delims=<hex> completion=<0/1> wordcompl=<0/1> strict=<0/1> sentence=<0/1>
//          maxhomophones=<n> maxhomographs=<n> nsyll=<n>
//   syl <id> <hex>                                   the table's syllabary
//   key <hex> <sid>:<type>:<credbits64>,...          prism keys in ExpandSearch("") order with their spellings
//   node <code> next=<0/1> <texthex>:<wbits32>,...   every node of the 3-level index (code = ids joined by '.')
//   tail <code> <extra>:<texthex>:<wbits32>,...      the tail page under a 3-syllable index code
//   in <hex>
//   graph ret=<r> n=<input_length> il=<interpreted_length> E=<start>{<end>[<sid>:<type>:<end_pos>:<credbits64>:<corr>,..]..}..
//         I=<start>{<sid>[<end>:<type>:<credbits64>:<corr><!?>,..]..}..      (script schemas only; `!` = the index entry
//         is not the address of edges[start][end_pos][sid])
//   cand <type> <start> <end> <texthex> <code|-> m=<matching_code_size> r=<remaining_code_length> q=<qualitybits64>
//   comp <texthex> <code> <word_length>              (after a `cand sentence`: its components)
//   end <n>
#include <glog/logging.h>
#include <cstdint>
#include <cstring>
#include <fstream>
#include <iostream>
#include <sstream>
#include <rime/candidate.h>
#include <rime/context.h>
#include <rime/engine.h>
#include <rime/schema.h>
#include <rime/segmentation.h>
#include <rime/ticket.h>
#include <rime/translation.h>
#include <rime/translator.h>
#include <rime/algo/syllabifier.h>
#include <rime/dict/dictionary.h>
#include <rime/dict/prism.h>
#include <rime/dict/table.h>
#include <rime/gear/script_translator.h>
#include <rime/gear/table_translator.h>
#include <rime/gear/translator_commons.h>
#include "../common/rime_env.h"

using namespace rime;

static std::string hexs(const std::string& s) {
  return s.empty() ? "-" : vh::hex(s);
}
static std::string ids_str(const Code& code) {
  if (code.empty())
    return "-";
  std::string s;
  for (size_t i = 0; i < code.size(); ++i) {
    if (i)
      s += ".";
    s += std::to_string(code[i]);
  }
  return s;
}
static std::string fbits(float w) {
  uint32_t b;
  std::memcpy(&b, &w, 4);
  char buf[16];
  snprintf(buf, sizeof buf, "%08x", b);
  return buf;
}
static std::string dbits(double w) {
  uint64_t b;
  std::memcpy(&b, &w, 8);
  char buf[24];
  snprintf(buf, sizeof buf, "%016llx", (unsigned long long)b);
  return buf;
}

static void dump_accessor_entries(Table* table, TableAccessor a, std::ostringstream& o, bool with_extra) {
  bool first = true;
  while (!a.exhausted()) {
    o << (first ? " " : ",");
    first = false;
    if (with_extra) {
      Code extra;
      if (auto* x = a.extra_code())
        for (auto p = x->begin(); p != x->end(); ++p)
          extra.push_back(*p);
      o << ids_str(extra) << ":";
    }
    o << hexs(table->GetEntryText(*a.entry())) << ":" << fbits(a.entry()->weight);
    a.Next();
  }
}

// walk of the index in the manner of tools/rime_table_decompiler.cc, printing node structure
static void dump_level(Table* table, TableQuery* query, Code prefix, int nsyll) {
  for (int i = 0; i < nsyll; i++) {
    TableAccessor acc = query->Access(i);
    bool adv = query->Advance(i);
    Code code(prefix);
    code.push_back(i);
    if (!acc.exhausted() || adv) {
      std::ostringstream o;
      o << "node " << ids_str(code) << " next=" << (adv ? 1 : 0);
      dump_accessor_entries(table, acc, o, false);
      std::cout << o.str() << "\n";
    }
    if (adv) {
      if (query->level() < 3) {
        dump_level(table, query, code, nsyll);
      } else {
        TableAccessor tail = query->Access(-1);
        std::ostringstream o;
        o << "tail " << ids_str(code);
        dump_accessor_entries(table, tail, o, true);
        std::cout << o.str() << "\n";
      }
      query->Backdate();
    }
  }
}

static void print_graph(int ret, SyllableGraph& g) {
  std::ostringstream o;
  o << "graph ret=" << ret << " n=" << g.input_length << " il=" << g.interpreted_length << " E=";
  for (auto& s : g.edges) {
    o << s.first << "{";
    for (auto& e : s.second) {
      o << e.first << "[";
      bool f2 = true;
      for (auto& sp : e.second) {
        o << (f2 ? "" : ",") << sp.first << ":" << static_cast<int>(sp.second.type) << ":" << sp.second.end_pos << ":"
          << dbits(sp.second.credibility) << ":" << (sp.second.is_correction ? 1 : 0);
        f2 = false;
      }
      o << "]";
    }
    o << "}";
  }
  o << " I=";
  for (auto& s : g.indices) {
    o << s.first << "{";
    for (auto& ix : s.second) {
      o << ix.first << "[";
      bool f2 = true;
      for (const EdgeProperties* p : ix.second) {
        bool same = false;
        auto es = g.edges.find(s.first);
        if (es != g.edges.end()) {
          auto ee = es->second.find(p->end_pos);
          if (ee != es->second.end()) {
            auto ek = ee->second.find(ix.first);
            same = ek != ee->second.end() && &ek->second == p;
          }
        }
        o << (f2 ? "" : ",") << p->end_pos << ":" << static_cast<int>(p->type) << ":" << dbits(p->credibility) << ":"
          << (p->is_correction ? 1 : 0) << (same ? "" : "!");
        f2 = false;
      }
      o << "]";
    }
    o << "}";
  }
  std::cout << o.str() << "\n";
}

int main(int argc, char** argv) {
  if (argc < 5) {
    fprintf(stderr, "usage: c07 <shared> <user> <staging> <casefile>\n");
    return 2;
  }
  std::cout.setf(std::ios::unitbuf);
  vh::Env env;
  if (!env.start_with_staging(argv[1], argv[2], argv[3]))
    return 3;
  FLAGS_minloglevel = 3;
  std::ifstream in(argv[4]);
  the<Engine> engine(Engine::Create());
  an<Translator> translator;
  std::string kind;
  bool script = false;
  std::string line;
  size_t max_cands = 4000;
  while (std::getline(in, line)) {
    if (line.empty())
      continue;
    std::istringstream ls(line);
    std::string cmd;
    ls >> cmd;
    if (cmd == "S") {
      std::string id;
      ls >> id >> kind;
      script = kind == "script";
      translator.reset();
      engine->ApplySchema(new Schema(id));
      auto* comp = Translator::Require(script ? "script_translator" : "table_translator");
      if (comp)
        translator.reset(comp->Create(Ticket(engine.get(), "translator", script ? "script_translator" : "table_translator")));
      auto* mem = dynamic_cast<Memory*>(translator.get());
      auto* opt = dynamic_cast<TranslatorOptions*>(translator.get());
      Dictionary* dict = mem ? mem->dict() : nullptr;
      bool ok = translator && dict && dict->loaded() && opt && !(mem->user_dict());
      Config* config = engine->schema()->config();
      bool sentence = false, wordcompl = false;
      int maxhomophones = 1, maxhomographs = 1;
      if (ok) {
        if (script) {
          auto* st = dynamic_cast<ScriptTranslator*>(translator.get());
          wordcompl = st->enable_word_completion();
          maxhomophones = st->max_homophones();
        } else {
          sentence = true;  // defaults of table_translator.h
          config->GetBool("translator/enable_sentence", &sentence);
          config->GetInt("translator/max_homographs", &maxhomographs);
        }
      }
      std::cout << "schema " << id << " kind=" << kind << " ok=" << (ok ? 1 : 0) << " delims="
                << (opt ? hexs(opt->delimiters()) : "-") << " completion=" << (opt && opt->enable_completion() ? 1 : 0)
                << " wordcompl=" << (wordcompl ? 1 : 0) << " strict=" << (opt && opt->strict_spelling() ? 1 : 0)
                << " sentence=" << (sentence ? 1 : 0) << " maxhomophones=" << maxhomophones
                << " maxhomographs=" << maxhomographs << " nsyll="
                << (ok ? dict->primary_table()->metadata()->num_syllables : 0) << "\n";
      if (!ok) {
        translator.reset();
        continue;
      }
      Table* table = dict->primary_table().get();
      int nsyll = (int)table->metadata()->num_syllables;
      for (int i = 0; i < nsyll; ++i)
        std::cout << "syl " << i << " " << hexs(table->GetSyllableById(i)) << "\n";
      {
        vector<Prism::Match> keys;
        dict->prism()->ExpandSearch("", &keys, 0);
        // Darts reports lengths only; recover the key strings by the same breadth-first construction ExpandSearch
        // performs (children in ascending byte order = the prism's sorted alphabet restricted to occurring bytes)
        // and cross-check the order against ExpandSearch("") itself (expandorder=1).
        std::vector<std::pair<std::string, int>> found;
        // generic BFS using Darts traverse through the public trie()
        struct Node {
          std::string key;
          size_t pos;
        };
        std::vector<Node> q{{"", 0}};
        size_t head = 0;
        {
          size_t node_pos = 0, key_pos = 0;
          int ret = dict->prism()->trie().traverse("", node_pos, key_pos);
          (void)ret;
          q[0].pos = node_pos;
        }
        while (head < q.size()) {
          Node n = q[head++];
          for (int c = 1; c < 256; ++c) {
            std::string k = n.key + (char)c;
            size_t k_pos = n.key.length();
            size_t n_pos = n.pos;
            int ret = dict->prism()->trie().traverse(k.c_str(), n_pos, k_pos);
            if (ret <= -2)
              continue;
            q.push_back({k, n_pos});
            if (ret >= 0)
              found.push_back({k, ret});
          }
        }
        bool same_order = found.size() == keys.size();
        for (size_t i = 0; same_order && i < keys.size(); ++i)
          same_order = found[i].second == keys[i].value && found[i].first.length() == keys[i].length;
        std::cout << "keys " << found.size() << " expandorder=" << (same_order ? 1 : 0) << "\n";
        for (auto& f : found) {
          std::ostringstream o;
          o << "key " << hexs(f.first) << " ";
          SpellingAccessor acc(dict->prism()->QuerySpelling(f.second));
          bool first = true;
          while (!acc.exhausted()) {
            o << (first ? "" : ",") << acc.syllable_id() << ":" << static_cast<int>(acc.properties().type) << ":"
              << dbits(acc.properties().credibility);
            first = false;
            acc.Next();
          }
          std::cout << o.str() << "\n";
        }
      }
      {
        TableQuery query(table->metadata()->index.get());
        dump_level(table, &query, Code(), nsyll);
      }
      std::cout << "endschema\n";
    } else if (cmd == "I") {
      std::string hx;
      ls >> hx;
      std::string input = hx == "-" ? std::string() : vh::unhex(hx);
      std::cout << "in " << hexs(input) << "\n";
      if (!translator) {
        std::cout << "end -1\n";
        continue;
      }
      auto* mem = dynamic_cast<Memory*>(translator.get());
      auto* opt = dynamic_cast<TranslatorOptions*>(translator.get());
      if (script) {
        Syllabifier syl(opt->delimiters(), opt->enable_completion(), opt->strict_spelling());
        SyllableGraph g;
        int ret = syl.BuildSyllableGraph(input, *mem->dict()->prism(), &g);
        print_graph(ret, g);
      }
      engine->context()->set_input(input);
      Segment seg(0, (int)input.length());
      seg.tags.insert("abc");
      an<Translation> t = translator->Query(input, seg);
      size_t n = 0;
      while (t && !t->exhausted() && n < max_cands) {
        an<Candidate> c = t->Peek();
        if (!c) {
          std::cout << "cand NULL\n";
          break;
        }
        auto ph = As<Phrase>(c);
        std::cout << "cand " << c->type() << " " << c->start() << " " << c->end() << " " << hexs(c->text()) << " "
                  << (ph ? ids_str(ph->code()) : std::string("?")) << " m=" << (ph ? ph->entry().matching_code_size : -1)
                  << " r=" << (ph ? ph->entry().remaining_code_length : -1) << " q=" << dbits(c->quality()) << "\n";
        if (auto sent = As<Sentence>(c)) {
          const auto& comps = sent->components();
          const auto& lens = sent->word_lengths();
          for (size_t i = 0; i < comps.size(); ++i)
            std::cout << "comp " << hexs(comps[i].text) << " " << ids_str(comps[i].code) << " "
                      << (i < lens.size() ? (long)lens[i] : -1L) << "\n";
        }
        ++n;
        t->Next();
      }
      std::cout << "end " << n << "\n";
      engine->context()->Clear();
    }
  }
  translator.reset();
  engine.reset();
  env.stop();
  return 0;
}
