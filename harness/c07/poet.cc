// C07 harness, direct stream: rime::Poet::MakeSentence on generated word graphs (no dictionary, no translator).
//
//   c07poet <casefile>
// casefile lines:
//   G <w|l> <0|1> <total> <precedinghex|-> <graph>
//        w = Poet::CompareWeight, l = Poet::LeftAssociateCompare; 1 = a grammar component is registered (then
//        Poet::MakeSentence takes the BeamSearch strategy), 0 = none (DynamicProgramming, Grammar::Evaluate adds kPenalty)
//        graph = '-' | <start>=<end>/<texthex>:<id>:<weight>,...|<end>/-;<start>=...   ('-' after '/': no entry)
//        weight = a decimal that is exactly representable (k/4)
// Output: one line per case:  none  |  sent <texthex>:<id>:<end>,...   (end = running sum of Sentence::word_lengths)
//
// The grammar registered for the `1` cases is a pure function of (context, word, is_rear) with values k/4, repeated
// in ocaml/c07/driver.ml: all sums are then exact in double and in the model.
#include <glog/logging.h>
#include <cstdint>
#include <cstdlib>
#include <fstream>
#include <iostream>
#include <sstream>
#include <rime/component.h>
#include <rime/registry.h>
#include <rime/gear/grammar.h>
#include <rime/gear/poet.h>
#include <rime/gear/translator_commons.h>

using namespace rime;

static std::string hex(const std::string& s) {
  static const char* d = "0123456789abcdef";
  if (s.empty())
    return "-";
  std::string o;
  for (unsigned char c : s) {
    o += d[c >> 4];
    o += d[c & 15];
  }
  return o;
}
static std::string unhex(const std::string& h) {
  std::string s;
  if (h == "-")
    return s;
  for (size_t i = 0; i + 1 < h.size(); i += 2)
    s += static_cast<char>(std::stoi(h.substr(i, 2), nullptr, 16));
  return s;
}
static std::vector<std::string> split(const std::string& s, char sep) {
  std::vector<std::string> out;
  std::string cur;
  for (char c : s) {
    if (c == sep) {
      out.push_back(cur);
      cur.clear();
    } else {
      cur += c;
    }
  }
  out.push_back(cur);
  return out;
}

class TestGrammar : public Grammar {
 public:
  double Query(const string& context, const string& word, bool is_rear) override {
    unsigned h = 0;
    for (unsigned char c : context)
      h += 3u * c;
    for (unsigned char c : word)
      h += 5u * c;
    if (is_rear)
      h += 7u;
    return -1.0 - (h % 32u) / 4.0;
  }
};
class TestGrammarComponent : public Grammar::Component {
 public:
  Grammar* Create(Config*) override { return new TestGrammar; }
};

int main(int argc, char** argv) {
  if (argc < 2) {
    fprintf(stderr, "usage: c07poet <casefile>\n");
    return 2;
  }
  FLAGS_minloglevel = 3;
  FLAGS_logtostderr = true;
  google::InitGoogleLogging(argv[0]);
  std::cout.setf(std::ios::unitbuf);
  std::ifstream in(argv[1]);
  std::string line;
  bool registered = false;
  while (std::getline(in, line)) {
    if (line.empty())
      continue;
    std::istringstream ls(line);
    std::string cmd, cmp, gram, prec, graph;
    size_t total = 0;
    ls >> cmd >> cmp >> gram >> total >> prec >> graph;
    if (cmd != "G") {
      std::cout << "BADLINE\n";
      continue;
    }
    bool want = gram == "1";
    if (want && !registered) {
      Registry::instance().Register("grammar", new TestGrammarComponent);
      registered = true;
    } else if (!want && registered) {
      Registry::instance().Unregister("grammar");
      registered = false;
    }
    WordGraph g;
    if (graph != "-") {
      for (const auto& sv : split(graph, ';')) {
        auto eq = sv.find('=');
        int start = std::atoi(sv.substr(0, eq).c_str());
        auto& same_start = g[start];
        for (const auto& ev : split(sv.substr(eq + 1), '|')) {
          auto sl = ev.find('/');
          int end = std::atoi(ev.substr(0, sl).c_str());
          DictEntryList& entries = same_start[end];
          std::string items = ev.substr(sl + 1);
          if (items == "-")
            continue;
          for (const auto& it : split(items, ',')) {
            auto f = split(it, ':');
            auto e = New<DictEntry>();
            e->text = unhex(f[0]);
            e->code.push_back(std::atoi(f[1].c_str()));
            e->weight = std::strtod(f[2].c_str(), nullptr);
            entries.push_back(e);
          }
        }
      }
    }
    Poet poet(nullptr, nullptr, cmp == "l" ? Poet::LeftAssociateCompare : Poet::CompareWeight);
    an<Sentence> s = poet.MakeSentence(g, total, unhex(prec));
    if (!s) {
      std::cout << "none\n";
      continue;
    }
    std::ostringstream o;
    o << "sent ";
    const auto& comps = s->components();
    const auto& lens = s->word_lengths();
    size_t pos = 0;
    for (size_t i = 0; i < comps.size(); ++i) {
      pos += i < lens.size() ? lens[i] : 0;
      o << (i ? "," : "") << hex(comps[i].text) << ":" << (comps[i].code.empty() ? -1 : comps[i].code[0]) << ":" << pos;
    }
    if (comps.empty())
      o << "-";
    std::cout << o.str() << "\n";
  }
  if (registered)
    Registry::instance().Unregister("grammar");
  return 0;
}
