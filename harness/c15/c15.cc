// C15 harness: schedule controller for the real librime (Deployer + Service).
//
// Controlled mode (default):  c15 <workdir>
//   stdin, one case per line:   <h0> <call> <call> ... | <schedule>
//     h0        1/0: a notification handler is installed before the script starts
//     call      SM:<rrr>  start_maintenance(True), the three scheduled tasks return r (1 ok / 0 fail)
//               SU:<rrr>  sync_user_data
//               IM  is_maintenance_mode      J   join_maintenance_thread
//               C   create_session           K<n> process_key   G<n> get_context
//               F<n> find_session            D<n> destroy_session   (n = index of the create_session call)
//               H1 / H0  set_notification_handler(handler / NULL); each call has its own context object (generation)
//               P<r>     harness only: the handler schedules one task (behaviour r) from inside its next result notification
//               task behaviour r: 1 returns true, 0 returns false, 2 throws std::runtime_error
//     schedule  string over {c,w}: which thread runs from its cut point to its next one;
//               C = a client step the model says must wait for a mutex: tried for 0.3 s ("blocked"/"unblocked"),
//               then everything is run to completion
//   stdout, one line per case: the observations in global order, e.g.
//     ret:H:0 sched:0 sched:1 sched:2 spawn ret:SM:1 notify:start exec:0 ... done ret:J:0
//   or  STUCK <why> | <observations so far>   when the schedule cannot be followed.
//   A schedule starting with 't' is followed tolerantly (see controlled()).
//
// The RIME_VERIF_YIELD hooks of librime park each thread at its cut point; the
// controller (main thread) releases exactly one thread per schedule letter and
// waits until it is parked again (or finished).  Only one thread runs at a time,
// so the observation order is total and deterministic.
//
// Stress mode:  c15 <workdir> --stress <seconds> <poll_handler 0|1>
//   hooks stay null; a client thread polls the API while maintenance runs.
//   Meant for the ThreadSanitizer flavour; also checks the property's own oracle
//   (bracketing, exactly-once, exclusion) on what it observes.
#include "../common/rime_env.h"

#include <rime/deployer.h>
#include <rime/registry.h>
#include <rime/service.h>
#include <rime/setup.h>

#include <atomic>
#include <chrono>
#include <condition_variable>
#include <deque>
#include <iostream>
#include <map>
#include <mutex>
#include <sstream>
#include <stdexcept>
#include <thread>
#include <unistd.h>

using namespace rime;

namespace {

std::mutex M;
std::condition_variable CV;
struct Slot {
  bool parked = false, go = false, done = false;
  int point = -1;
};
Slot slots[2];  // 0 client, 1 worker
std::atomic<bool> free_run{true};
thread_local int role = -1;
std::vector<std::string> events;
std::map<const void*, int> task_ids;
int next_task_id = 0;
std::deque<int> next_results;   // 1 ok, 0 fails, 2 throws
std::deque<int> handler_plan;   // tasks the handler schedules from inside its next result notifications
long setter_calls = 0;          // generation of the installed handler = number of set_notification_handler calls so far
const int HANDLER_INSIDE = 100; // harness-side cut point: inside the handler invocation
bool pop_installation_update = false;
int task_sleep_us = 0;
std::atomic<int> stress_running_tasks{0};

void log_event(const std::string& e) {
  std::lock_guard<std::mutex> l(M);
  events.push_back(e);
}

void park(int who, int point) {
  std::unique_lock<std::mutex> l(M);
  Slot& s = slots[who];
  s.parked = true;
  s.point = point;
  CV.notify_all();
  CV.wait(l, [&] { return s.go || free_run.load(); });
  s.go = false;
  s.parked = false;
}

void yield_hook(int point) {
  if (free_run.load())
    return;
  if (role < 0)
    role = 1;  // any thread that is not the scripted client is the std::async worker
  if (role == 0 && (point == RIME_VERIF_NOTIFY_ENTER || point == RIME_VERIF_NOTIFY_LOCKED))
    return;  // session-level notifications on the client thread are not cut points of the model
  if (role == 1 && point == RIME_VERIF_SCHEDULE_ENTER)
    return;  // ScheduleTask called by the handler on the worker thread: part of the invocation step
  if (point == RIME_VERIF_CLEANUPALL_ENTER) {
    log_event("cleanup");   // an event, not a cut point: where RimeSyncUserData destroys the sessions relative to its own spawn
    return;
  }
  if (point == RIME_VERIF_STARTWORK_SPAWNED)
    log_event("spawn");
  if (point == RIME_VERIF_GETSESSION_ACCEPTED || point == RIME_VERIF_CREATESESSION_ACCEPTED)
    log_event("accept");
  park(role, point);
}

void task_hook(int event, const void* task) {
  std::lock_guard<std::mutex> l(M);
  if (event == RIME_VERIF_TASK_SCHEDULED) {
    task_ids[task] = next_task_id;
    events.push_back("sched:" + std::to_string(next_task_id++));
  } else if (event == RIME_VERIF_TASK_RUN) {
    auto it = task_ids.find(task);
    events.push_back("exec:" + (it == task_ids.end() ? std::string("?") : std::to_string(it->second)));
  }
}

struct TestTask : DeploymentTask {
  int result;
  explicit TestTask(int r) : result(r) {}
  bool Run(Deployer*) override {
    if (task_sleep_us) {
      ++stress_running_tasks;
      usleep(task_sleep_us);
      --stress_running_tasks;
    }
    if (result == 2)
      throw std::runtime_error("verif: task throws");
    return result == 1;
  }
};
struct TestTaskComponent : DeploymentTask::Component {
  std::string name;
  explicit TestTaskComponent(std::string n) : name(std::move(n)) {}
  TestTask* Create(TaskInitializer) override {
    bool scripted = name != "clean_old_log_files" && (name != "installation_update" || pop_installation_update);
    int r = 1;
    if (scripted && !next_results.empty()) {
      r = next_results.front();
      next_results.pop_front();
    }
    return new TestTask(r);
  }
};

void on_notify(void* ctx, RimeSessionId id, const char* type, const char* value) {
  if (id != 0 || std::string(type) != "deploy")
    return;
  log_event("hin:" + std::to_string(reinterpret_cast<intptr_t>(ctx)));
  log_event(std::string("notify:") + value);
  if (std::string(value) != "start") {
    int planned = -1;
    {
      std::lock_guard<std::mutex> l(M);
      if (!handler_plan.empty()) {
        planned = handler_plan.front();
        handler_plan.pop_front();
      }
    }
    if (planned >= 0)
      Service::instance().deployer().ScheduleTask(New<TestTask>(planned));
  }
  if (role == 1 && !free_run.load())
    park(1, HANDLER_INSIDE);  // the invocation is in progress: the controller decides who runs next
  log_event("hout");
}

struct Call {
  std::string op;
  int n = 0;
  std::vector<int> rs;
};

bool parse_call(const std::string& tok, Call& c) {
  if (tok.rfind("SM:", 0) == 0 || tok.rfind("SU:", 0) == 0) {
    c.op = tok.substr(0, 2);
    for (char ch : tok.substr(3))
      c.rs.push_back(ch == '1' ? 1 : ch == '2' ? 2 : 0);
    return c.rs.size() == 3;
  }
  if (tok.size() == 2 && tok[0] == 'P') {
    c.op = "P";
    c.n = tok[1] == '1' ? 1 : tok[1] == '2' ? 2 : 0;
    return true;
  }
  if (tok == "IM" || tok == "J" || tok == "C" || tok == "H1" || tok == "H0") {
    c.op = tok;
    return true;
  }
  if (tok.size() >= 2 && std::string("KGFD").find(tok[0]) != std::string::npos) {
    c.op = tok.substr(0, 1);
    c.n = atoi(tok.c_str() + 1);
    return true;
  }
  return false;
}

RimeApi* api;
std::vector<RimeSessionId> created;             // result of each create_session call (0 when refused)
std::map<RimeSessionId, int> session_index;     // live raw id -> order of creation
int next_session_index = 0;

RimeSessionId sid_of(int n) { return n >= 0 && n < (int)created.size() ? created[n] : 0; }

void do_call(const Call& c) {
  std::ostringstream o;
  if (c.op == "SM" || c.op == "SU") {
    {
      std::lock_guard<std::mutex> l(M);
      next_results.assign(c.rs.begin(), c.rs.end());
      pop_installation_update = c.op == "SU";
    }
    Bool r = c.op == "SM" ? api->start_maintenance(True) : api->sync_user_data();
    if (c.op == "SU")
      session_index.clear();
    o << "ret:" << c.op << ":" << (r ? 1 : 0);
  } else if (c.op == "IM") {
    o << "ret:IM:" << (api->is_maintenance_mode() ? 1 : 0);
  } else if (c.op == "J") {
    try {
      api->join_maintenance_thread();
      o << "ret:J:0";
    } catch (...) {
      o << "jointhrow";
    }
  } else if (c.op == "C") {
    RimeSessionId id = api->create_session();
    created.push_back(id);
    int ix = 0;
    if (id) {
      ix = ++next_session_index;
      session_index[id] = ix;
    }
    o << "ret:C:" << ix;
  } else if (c.op == "K") {
    o << "ret:K:" << (api->process_key(sid_of(c.n), 'a', 0) ? 1 : 0);
  } else if (c.op == "G") {
    RIME_STRUCT(RimeContext, ctx);
    Bool r = api->get_context(sid_of(c.n), &ctx);
    if (r)
      api->free_context(&ctx);
    o << "ret:G:" << (r ? 1 : 0);
  } else if (c.op == "F") {
    o << "ret:F:" << (api->find_session(sid_of(c.n)) ? 1 : 0);
  } else if (c.op == "D") {
    RimeSessionId id = sid_of(c.n);
    Bool r = api->destroy_session(id);
    if (r)
      session_index.erase(id);
    o << "ret:D:" << (r ? 1 : 0);
  } else if (c.op == "H1") {
    long g = ++setter_calls;
    api->set_notification_handler(on_notify, reinterpret_cast<void*>(g));
    o << "ret:H:0";
  } else if (c.op == "H0") {
    ++setter_calls;
    api->set_notification_handler(nullptr, nullptr);
    o << "ret:H:0";
  } else if (c.op == "P") {
    std::lock_guard<std::mutex> l(M);
    handler_plan.push_back(c.n);
    o << "ret:P:0";
  }
  log_event(o.str());
}

void client_main(std::vector<Call> script) {
  role = 0;
  for (const Call& c : script) {
    park(0, 0);  // call boundary
    if (free_run.load())
      break;     // the schedule ended before the script: the remaining calls are not made
    do_call(c);
  }
  std::lock_guard<std::mutex> l(M);
  slots[0].done = true;
  CV.notify_all();
}

std::string join_events() {
  std::lock_guard<std::mutex> l(M);
  std::string s;
  for (auto& e : events)
    s += (s.empty() ? "" : " ") + e;
  return s;
}

bool worker_alive = false;

// release thread t for one macro step; "" on success, else why it could not be done
std::string controller_step(int t, int deadline_ms = 10000) {
  Deployer& dep = Service::instance().deployer();
  auto deadline = std::chrono::steady_clock::now() + std::chrono::milliseconds(deadline_ms);
  std::unique_lock<std::mutex> l(M);
  if (t == 1 && !worker_alive)
    return "no-worker";
  if (!slots[t].parked)
    return t == 0 ? (slots[0].done ? "client-finished" : "client-not-parked") : "worker-not-parked";
  slots[t].go = true;
  CV.notify_all();
  for (;;) {
    if (t == 0) {
      if ((slots[0].parked && !slots[0].go) || slots[0].done) {
        if (slots[0].parked && slots[0].point == RIME_VERIF_STARTWORK_SPAWNED && !worker_alive) {
          // a worker thread was started: wait until it reaches its first cut point
          if (CV.wait_until(l, deadline, [&] { return slots[1].parked; })) {
            worker_alive = true;
            return "";
          }
          return "spawned-worker-did-not-arrive";
        }
        return "";
      }
    } else {
      if (slots[1].parked && !slots[1].go)
        return "";
      l.unlock();
      bool over = !dep.IsWorking();  // the client is parked: nobody else touches work_
      l.lock();
      if (over && !slots[1].parked) {
        worker_alive = false;
        slots[1] = Slot();
        events.push_back("done");
        return "";
      }
    }
    if (CV.wait_for(l, std::chrono::microseconds(t == 1 ? 100 : 2000)) == std::cv_status::timeout &&
        std::chrono::steady_clock::now() > deadline)
      return t == 0 ? "client-stuck" : "worker-stuck";
  }
}

// run the worker, then the client, to completion under the controller (tolerant of refusals)
void run_to_completion() {
  for (int n = 0; n < 400; ++n) {
    bool alive, cdone;
    {
      std::lock_guard<std::mutex> l(M);
      alive = worker_alive;
      cdone = slots[0].done;
    }
    if (alive && controller_step(1, 500).empty())
      continue;
    if (cdone)
      break;
    if (!controller_step(0, 500).empty() && !alive)
      break;
  }
}

void reset_between_cases(std::thread& client) {
  Deployer& dep = Service::instance().deployer();
  free_run.store(true);
  {
    std::lock_guard<std::mutex> l(M);
    CV.notify_all();
  }
  if (client.joinable())
    client.join();
  try {
    api->join_maintenance_thread();
  } catch (...) {
  }
  while (dep.NextTask()) {
  }
  api->cleanup_all_sessions();
  api->set_notification_handler(nullptr, nullptr);
  dep.StartWork(false);  // queue empty: only resets maintenance_mode_
  std::lock_guard<std::mutex> l(M);
  events.clear();
  task_ids.clear();
  next_task_id = 0;
  next_results.clear();
  handler_plan.clear();
  setter_calls = 0;
  created.clear();
  session_index.clear();
  next_session_index = 0;
  slots[0] = Slot();
  slots[1] = Slot();
  worker_alive = false;
}

int controlled(const std::string& work) {
  std::string line;
  std::thread client;
  while (std::getline(std::cin, line)) {
    if (line.empty())
      continue;
    std::istringstream in(line);
    std::string tok, sched;
    int h0 = 0;
    in >> h0;
    std::vector<Call> script;
    bool bad = false, in_sched = false;
    while (in >> tok) {
      if (tok == "|") {
        in_sched = true;
        continue;
      }
      if (in_sched) {
        sched = tok;
        continue;
      }
      Call c;
      if (!parse_call(tok, c))
        bad = true;
      script.push_back(c);
    }
    if (bad) {
      std::cout << "BADLINE" << std::endl;
      continue;
    }
    if (h0)
      api->set_notification_handler(on_notify, nullptr);  // generation 0
    free_run.store(false);
    client = std::thread(client_main, script);
    {
      std::unique_lock<std::mutex> l(M);
      CV.wait(l, [&] { return slots[0].parked || slots[0].done; });
    }
    std::string why;
    size_t i = 0;
    // a schedule starting with 't' is followed tolerantly (failing-input search when the model
    // and the library disagree): a letter whose thread cannot run is skipped, a thread that does
    // not come back within 0.5 s is left running, and at the end the worker, then the client,
    // are run to completion so that the whole script is observed.
    bool tolerant = !sched.empty() && sched[0] == 't';
    if (tolerant) {
      for (i = 1; i < sched.size(); ++i)
        controller_step(sched[i] == 'c' ? 0 : 1, 500);
      run_to_completion();
    } else {
      bool probed = false;
      for (; i < sched.size(); ++i) {
        if (sched[i] == 'C') {
          // a client step the model refuses (it must wait for a mutex): try it for 0.3 s
          std::string r = controller_step(0, 300);
          log_event(r.empty() ? "unblocked" : "blocked");
          probed = true;
          continue;
        }
        why = controller_step(sched[i] == 'c' ? 0 : 1);
        if (!why.empty())
          break;
      }
      if (probed && why.empty())
        run_to_completion();
    }
    std::string ev = join_events();
    if (!why.empty())
      std::cout << "STUCK " << why << "@" << i << " | " << ev << std::endl;
    else
      std::cout << ev << std::endl;
    reset_between_cases(client);
  }
  return 0;
}

// ---------------------------------------------------------------------------
// free-running stress (ThreadSanitizer flavour)
std::atomic<long> st_notify_start{0}, st_notify_result{0}, st_bad_order{0}, st_exec{0};
std::atomic<int> st_last{0};  // 0 idle/result, 1 start
void stress_notify(void*, RimeSessionId id, const char* type, const char* value) {
  if (id != 0 || std::string(type) != "deploy")
    return;
  std::string v(value);
  if (v == "start") {
    ++st_notify_start;
    st_last = 1;
  } else {
    ++st_notify_result;
    st_last = 0;
  }
}
void stress_notify2(void* p, RimeSessionId id, const char* type, const char* value) {
  stress_notify(p, id, type, value);
}
std::mutex ST;
std::map<const void*, int> st_state;  // 1 scheduled, 2 run
long st_sched = 0, st_twice = 0, st_unknown = 0;
void stress_task_hook(int event, const void* task) {
  std::lock_guard<std::mutex> l(ST);
  if (event == RIME_VERIF_TASK_SCHEDULED) {
    st_state[task] = 1;
    ++st_sched;
  } else {
    auto it = st_state.find(task);
    if (it == st_state.end())
      ++st_unknown;
    else if (it->second == 2)
      ++st_twice;
    else
      it->second = 2;
    ++st_exec;
  }
}

int stress(double seconds, bool poll_handler) {
  Deployer& dep = Service::instance().deployer();
  task_sleep_us = 150;
  rime_verif_task_hook = stress_task_hook;
  api->set_notification_handler(stress_notify, nullptr);
  auto end = std::chrono::steady_clock::now() + std::chrono::microseconds((long)(seconds * 1e6));
  long rounds = 0, polls = 0, accepted_during = 0, refused = 0, lost_sm = 0;
  while (std::chrono::steady_clock::now() < end) {
    ++rounds;
    next_results.assign({1, rounds % 3 != 0 ? 1 : (rounds % 2 ? 0 : 2), 1});
    pop_installation_update = rounds % 2 == 0;
    if (rounds % 2)
      api->start_maintenance(True);
    else
      api->sync_user_data();
    long in_round = 0;
    while (api->is_maintenance_mode()) {
      ++polls;
      ++in_round;
      if (poll_handler)
        api->set_notification_handler(polls % 2 ? stress_notify2 : stress_notify, nullptr);
      RimeSessionId id = api->create_session();
      // exclusion oracle: a session operation accepted while a task body is running
      if (id) {
        if (stress_running_tasks.load() > 0 && api->is_maintenance_mode())
          ++accepted_during;
        api->destroy_session(id);
      } else {
        ++refused;
      }
      if (in_round == 3 && rounds % 4 == 1) {
        // a second start while the first is running (the worker's exit window is hit by chance)
        next_results.assign({1, 1, 1});
        pop_installation_update = true;
        api->sync_user_data();
      }
    }
    if (rounds % 5 == 0)
      api->join_maintenance_thread();
  }
  api->join_maintenance_thread();
  long leftover = 0;
  while (dep.NextTask())
    ++leftover;
  std::lock_guard<std::mutex> l(ST);
  long never = 0;
  for (auto& kv : st_state)
    if (kv.second == 1)
      ++never;
  std::cout << "stress rounds=" << rounds << " polls=" << polls << " refused=" << refused
            << " accepted_during_task=" << accepted_during << " scheduled=" << st_sched << " executed=" << st_exec
            << " executed_twice=" << st_twice << " executed_unknown=" << st_unknown
            << " left_in_queue_at_end=" << leftover << " never_run=" << never
            << " notify_start=" << st_notify_start << " notify_result=" << st_notify_result
            << " last_is_start=" << st_last.load() << std::endl;
  return 0;
}

}  // namespace

int main(int argc, char** argv) {
  if (argc < 2) {
    fprintf(stderr, "usage: c15 <workdir> [--stress <seconds> <poll_handler>]\n");
    return 2;
  }
  std::string work = argv[1];
  vh::Env env;
  env.start(work + "/shared", work + "/user", false);
  api = env.api;
  LoadModules(kDeployerModules);
  for (auto n : {"clean_old_log_files", "installation_update", "workspace_update", "user_dict_upgrade",
                 "cleanup_trash", "backup_config_files", "user_dict_sync"})
    Registry::instance().Register(n, new TestTaskComponent(n));
  int rc;
  if (argc >= 5 && std::string(argv[2]) == "--stress") {
    rc = stress(atof(argv[3]), atoi(argv[4]) != 0);
  } else {
    rime_verif_yield_hook = yield_hook;
    rime_verif_task_hook = task_hook;
    rc = controlled(work);
    rime_verif_yield_hook = nullptr;
    rime_verif_task_hook = nullptr;
  }
  env.stop();
  return rc;
}
