// C08 harness: real rime::Prism + rime::Syllabifier (sanitizer build of /repo).
//
// stdin, one command per line:
//   S <syl> <syl> ...                       syllabary, no spelling algebra (Prism::Build(syllabary))
//   A <syl> ... | <formula> | <formula> ... syllabary + spelling algebra (Script::AddSyllable, Projection::Load/Apply)
//   X <syl> ... | <key>=<syl>:<type>:<cred>;<syl>:<type>:<cred> | ...   syllabary + hand-made Script
//   D <hex delimiters | ->
//   G <completion 0|1> <strict 0|1> <hex input | ->
// stdout:
//   for S/A/X : "P <keyhex>=<sid>:<type>:<float bits>,... <keyhex>=..."  -- the prism as the finite map the
//               model takes (read back through Prism::GetValue / QuerySpelling of the saved+loaded file)
//   for G     : the whole SyllableGraph, canonically (see print_graph)
#include <rime/algo/algebra.h>
#include <rime/algo/syllabifier.h>
#include <rime/config/config_types.h>
#include <rime/dict/prism.h>
#include <glog/logging.h>

#include <cstdint>
#include <cstring>
#include <iostream>
#include <sstream>

using namespace rime;

static const double kCompletionPenalty = -0.6931471805599453;             // syllabifier.cc
static const double kPenaltyForAmbiguousSyllable = -23.025850929940457;   // syllabifier.cc

static std::string hex(const std::string& s) {
  static const char* d = "0123456789abcdef";
  std::string r;
  for (unsigned char c : s) {
    r += d[c >> 4];
    r += d[c & 15];
  }
  return r.empty() ? "-" : r;
}
static std::string unhex(const std::string& h) {
  std::string s;
  if (h == "-") return s;
  for (size_t i = 0; i + 1 < h.size(); i += 2) s += static_cast<char>(std::stoi(h.substr(i, 2), nullptr, 16));
  return s;
}
static std::vector<std::string> split(const std::string& s, char sep) {
  std::vector<std::string> out;
  std::string cur;
  for (char c : s) {
    if (c == sep) {
      out.push_back(cur);
      cur.clear();
    } else
      cur += c;
  }
  out.push_back(cur);
  return out;
}
static std::vector<std::string> words(const std::string& s) {
  std::istringstream is(s);
  std::vector<std::string> out;
  std::string w;
  while (is >> w) out.push_back(w);
  return out;
}
static std::string trim(const std::string& s) {
  size_t a = s.find_first_not_of(' '), b = s.find_last_not_of(' ');
  return a == std::string::npos ? "" : s.substr(a, b - a + 1);
}
static uint32_t float_bits(double v) {
  float f = static_cast<float>(v);
  uint32_t u;
  std::memcpy(&u, &f, 4);
  return u;
}
static double bits_double(uint32_t u) {
  float f;
  std::memcpy(&f, &u, 4);
  return static_cast<double>(f);
}

static std::set<uint32_t> g_bases;  // credibility atoms stored in the current prism

// exact form of a credibility: base + comp*kCompletionPenalty + pen*kPenaltyForAmbiguousSyllable, evaluated
// in the order the code adds them; every decoding that reproduces the double bit-for-bit is printed.
static std::string cred_form(double v) {
  std::string out;
  for (uint32_t b : g_bases)
    for (int comp = 0; comp <= 1; ++comp) {
      double x = bits_double(b);
      if (comp) x += kCompletionPenalty;
      for (int pen = 0; pen <= 12; ++pen) {
        if (std::memcmp(&x, &v, sizeof x) == 0 || (x == 0.0 && v == 0.0)) {
          if (!out.empty()) out += "|";
          out += std::to_string(b) + "." + std::to_string(comp) + "." + std::to_string(pen);
        }
        x += kPenaltyForAmbiguousSyllable;
      }
    }
  if (out.empty()) {
    char buf[64];
    snprintf(buf, sizeof buf, "?%a", v);
    out = buf;
  }
  return out;
}

static void print_graph(int ret, SyllableGraph& g) {
  std::ostringstream o;
  o << "r=" << ret << " n=" << g.input_length << " il=" << g.interpreted_length << " V=";
  bool first = true;
  for (auto& v : g.vertices) {
    o << (first ? "" : ",") << v.first << ":" << static_cast<int>(v.second);
    first = false;
  }
  o << " E=";
  for (auto& s : g.edges) {
    o << s.first << "{";
    for (auto& e : s.second) {
      o << e.first << "[";
      bool f2 = true;
      for (auto& sp : e.second) {
        o << (f2 ? "" : ",") << sp.first << ":" << static_cast<int>(sp.second.type) << ":" << sp.second.end_pos << ":"
          << cred_form(sp.second.credibility) << (sp.second.is_correction ? ":C" : "");
        f2 = false;
      }
      o << "]";
    }
    o << "}";
  }
  o << " I=";
  for (auto& s : g.indices) {
    o << s.first << "{";
    for (auto& ix : s.second) {
      o << ix.first << "[";
      bool f2 = true;
      for (const EdgeProperties* p : ix.second) {
        // the entry must be the address of the properties stored in edges[start][end_pos][syllable]
        bool same = false;
        auto es = g.edges.find(s.first);
        if (es != g.edges.end()) {
          auto ee = es->second.find(p->end_pos);
          if (ee != es->second.end()) {
            auto ek = ee->second.find(ix.first);
            same = ek != ee->second.end() && &ek->second == p;
          }
        }
        o << (f2 ? "" : ",") << p->end_pos << ":" << static_cast<int>(p->type) << ":" << cred_form(p->credibility)
          << (same ? "" : "!");
        f2 = false;
      }
      o << "]";
    }
    o << "}";
  }
  std::cout << o.str() << "\n";
}

int main(int argc, char** argv) {
  if (argc < 2) {
    fprintf(stderr, "usage: c08 <workdir> < cases\n");
    return 2;
  }
  FLAGS_minloglevel = 3;
  FLAGS_logtostderr = true;
  std::string work = argv[1];
  the<Prism> prism;
  std::string delims;
  std::string line;
  int nprism = 0;
  while (std::getline(std::cin, line)) {
    if (line.empty()) continue;
    char cmd = line[0];
    std::string rest = line.size() > 2 ? line.substr(2) : "";
    if (cmd == 'S' || cmd == 'A' || cmd == 'X') {
      auto parts = split(rest, '|');
      Syllabary syllabary;
      for (auto& w : words(parts[0])) syllabary.insert(w);
      Script script;
      bool use_script = cmd != 'S';
      bool ok = true;
      if (cmd == 'A') {
        for (auto& s : syllabary) script.AddSyllable(s);
        auto list = New<ConfigList>();
        for (size_t i = 1; i < parts.size(); ++i) {
          std::string f = trim(parts[i]);
          if (!f.empty()) list->Append(New<ConfigValue>(f));
        }
        Projection proj;
        ok = proj.Load(list);
        if (ok) proj.Apply(&script);
      } else if (cmd == 'X') {
        for (size_t i = 1; i < parts.size(); ++i) {
          std::string item = trim(parts[i]);
          if (item.empty()) continue;
          size_t eq = item.find('=');
          std::string key = item.substr(0, eq);
          for (auto& d : split(item.substr(eq + 1), ';')) {
            auto f = split(d, ':');
            Spelling sp(f[0]);
            sp.properties.type = static_cast<SpellingType>(std::stoi(f[1]));
            sp.properties.credibility = std::strtod(f[2].c_str(), nullptr);
            script[key].push_back(sp);
          }
        }
      }
      prism.reset();
      g_bases.clear();
      g_bases.insert(float_bits(0.0));
      std::string file = work + "/p" + std::to_string(nprism++ % 4) + ".prism.bin";
      std::remove(file.c_str());
      if (ok) {
        Prism builder{path(file)};
        ok = builder.Build(syllabary, use_script ? &script : nullptr, 0, 0) && builder.Save();
        builder.Close();
      }
      if (ok) {
        prism.reset(new Prism(path(file)));
        ok = prism->Load();
      }
      if (!ok) {
        prism.reset();
        std::cout << "P! build-failed\n";
        continue;
      }
      std::ostringstream o;
      o << "P";
      std::vector<std::string> keys;
      if (use_script)
        for (auto& kv : script) keys.push_back(kv.first);
      else
        for (auto& s : syllabary) keys.push_back(s);
      for (auto& k : keys) {
        int id = -1;
        if (!prism->GetValue(k, &id)) {
          o << " " << hex(k) << "=MISSING";
          continue;
        }
        o << " " << hex(k) << "=";
        bool first = true;
        for (SpellingAccessor a(prism->QuerySpelling(id)); !a.exhausted(); a.Next()) {
          SpellingProperties p = a.properties();
          uint32_t b = float_bits(p.credibility);
          g_bases.insert(b);
          o << (first ? "" : ",") << a.syllable_id() << ":" << static_cast<int>(p.type) << ":" << b;
          first = false;
        }
      }
      std::cout << o.str() << "\n";
    } else if (cmd == 'D') {
      delims = unhex(trim(rest));
    } else if (cmd == 'G') {
      auto f = words(rest);
      if (!prism || f.size() < 3) {
        std::cout << "NOPRISM\n";
        continue;
      }
      bool comp = f[0] == "1", strict = f[1] == "1";
      std::string input = unhex(f[2]);
      Syllabifier syl(delims, comp, strict);
      SyllableGraph g;
      int ret = syl.BuildSyllableGraph(input, *prism, &g);
      print_graph(ret, g);
    }
  }
  std::cout.flush();
  return 0;
}
