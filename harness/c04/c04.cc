// C04 harness (real librime, ASan+UBSan build of /repo's working tree).
//
//   c04 unit <workdir>   < cases   : real rime::Menu objects over real translation
//        classes and filters built from generated candidate streams, injected into
//        the last segment of a real session so that the *real* API functions
//        (get_context, candidate_list_*, highlight_*, change_page) and the real
//        Selector (Page_Down/Page_Up/Down/Up/Home keys) do the page arithmetic.
//        Case/observation format: see ocaml/c04/driver.ml.
//   c04 api <workdir(shared+user deployed)> < script : black-box API sessions on
//        stock schemas, see api_mode() below.
#include "../common/rime_env.h"
#include <rime/candidate.h>
#include <rime/composition.h>
#include <rime/context.h>
#include <rime/engine.h>
#include <rime/menu.h>
#include <rime/schema.h>
#include <rime/segmentation.h>
#include <rime/service.h>
#include <rime/ticket.h>
#include <rime/translation.h>
#include <rime/dict/vocabulary.h>
#include <rime/gear/charset_filter.h>
#include <rime/gear/echo_translator.h>
#include <rime/gear/simplifier.h>
#include <rime/gear/single_char_filter.h>
#include <rime/config.h>
#include <rime/gear/translator_commons.h>
#include <rime/gear/uniquifier.h>
#include <iostream>
#include <map>
#include <set>
#include <sstream>

using namespace vh;
using namespace rime;

static std::string utf8_of(const std::vector<uint32_t>& cps) {
  std::string s;
  for (uint32_t c : cps) {
    if (c < 0x80) s += char(c);
    else if (c < 0x800) { s += char(0xC0 | (c >> 6)); s += char(0x80 | (c & 0x3F)); }
    else if (c < 0x10000) { s += char(0xE0 | (c >> 12)); s += char(0x80 | ((c >> 6) & 0x3F)); s += char(0x80 | (c & 0x3F)); }
    else { s += char(0xF0 | (c >> 18)); s += char(0x80 | ((c >> 12) & 0x3F)); s += char(0x80 | ((c >> 6) & 0x3F)); s += char(0x80 | (c & 0x3F)); }
  }
  return s;
}
static std::string cps_of(const std::string& s) {  // "cp.cp.cp"
  std::string out;
  size_t i = 0;
  bool first = true;
  while (i < s.size()) {
    unsigned char b = s[i];
    uint32_t c;
    int n;
    if (b < 0x80) { c = b; n = 1; }
    else if (b < 0xE0) { c = b & 0x1F; n = 2; }
    else if (b < 0xF0) { c = b & 0x0F; n = 3; }
    else { c = b & 0x07; n = 4; }
    for (int k = 1; k < n && i + k < s.size(); ++k) c = (c << 6) | (s[i + k] & 0x3F);
    i += n;
    if (!first) out += ".";
    out += std::to_string(c);
    first = false;
  }
  return out;
}

struct Tok {
  std::vector<std::string> t;
  size_t p = 0;
  bool ok = true;
  std::string next() { if (p >= t.size()) { ok = false; return "0"; } return t[p++]; }
  long num() { return atol(next().c_str()); }
};

static const char* kTypes[] = {"table", "user_table", "completion", "table", "raw", "completion"};

struct CandSpec { std::string text; long comment, type, start, end, quality; };
static CandSpec parse_cand(const std::string& s) {
  std::vector<std::string> f;
  std::string cur;
  for (char ch : s) { if (ch == ':') { f.push_back(cur); cur.clear(); } else cur += ch; }
  f.push_back(cur);
  CandSpec c{};
  if (f.size() != 6) return c;
  std::vector<uint32_t> cps;
  std::stringstream ss(f[0]);
  std::string x;
  while (std::getline(ss, x, '.')) if (!x.empty()) cps.push_back(strtoul(x.c_str(), nullptr, 10));
  c.text = utf8_of(cps);
  c.comment = atol(f[1].c_str()); c.type = atol(f[2].c_str()); c.start = atol(f[3].c_str());
  c.end = atol(f[4].c_str()); c.quality = atol(f[5].c_str());
  return c;
}
static an<Candidate> make_cand(const CandSpec& c) {
  std::string comment = c.comment ? "c" + std::to_string(c.comment) : "";
  long ty = c.type < 0 ? 0 : (c.type > 5 ? 5 : c.type);
  an<Candidate> r;
  if (ty <= 2) {
    auto e = New<DictEntry>();
    e->text = c.text;
    e->comment = comment;
    r = New<Phrase>(nullptr, kTypes[ty], c.start, c.end, e);
  } else {
    r = New<SimpleCandidate>(kTypes[ty], c.start, c.end, c.text, comment);
  }
  r->set_quality(double(c.quality));
  return r;
}
static int type_no(const an<Candidate>& shown) {
  auto g = Candidate::GetGenuineCandidate(shown);
  const std::string& t = g->type();
  if (As<Phrase>(g)) return t == "table" ? 0 : t == "user_table" ? 1 : 2;
  return t == "table" ? 3 : t == "raw" ? 4 : 5;
}
static std::string item(size_t idx, const std::string& text, const std::string& comment) {
  long cm = 0;
  if (comment.size() > 1 && comment[0] == 'c') cm = atol(comment.c_str() + 1);
  return std::to_string(idx) + "=" + cps_of(text) + ":" + std::to_string(cm);
}
static std::string item_full(size_t idx, const an<Candidate>& c) {
  auto u = As<UniquifiedCandidate>(c);
  return item(idx, c->text(), c->comment()) + ":" + std::to_string(type_no(c)) + ":" +
         std::to_string(long(c->quality())) + ":" + std::to_string(u ? u->items().size() : (As<ShadowCandidate>(c) ? 1 : 0));
}

struct Builder {
  SingleCharFilter single{Ticket()};
  EchoTranslator echo{Ticket()};
  an<Translation> spec(Tok& tk) {
    std::string k = tk.next();
    if (k == "U") return New<UniqueTranslation>(make_cand(parse_cand(tk.next())));
    if (k == "U0") return New<UniqueTranslation>(nullptr);
    if (k == "E") {
      CandSpec c = parse_cand(tk.next());
      Segment seg(c.start, c.end);
      return echo.Query(c.text, seg);
    }
    if (k == "F") {
      long n = tk.num();
      auto f = New<FifoTranslation>();
      for (long i = 0; i < n; ++i) f->Append(make_cand(parse_cand(tk.next())));
      return f;
    }
    if (k == "N") {
      long n = tk.num();
      auto u = New<UnionTranslation>();
      for (long i = 0; i < n; ++i) *u += spec(tk);
      return u;
    }
    if (k == "K") return New<CacheTranslation>(spec(tk));
    if (k == "D") return New<DistinctTranslation>(spec(tk));
    if (k == "P") return New<PrefetchTranslation>(spec(tk));
    if (k == "S") return single.Apply(spec(tk), nullptr);
    if (k == "X") return New<CharsetFilterTranslation>(spec(tk));
    tk.ok = false;
    return nullptr;
  }
};

static const int kPageSizes[] = {1, 2, 3, 4, 5, 7};

static int unit_mode(const std::string& work) {
  std::string shared = work + "/shared", user = work + "/user";
  mkdirs(shared);
  std::string list;
  for (int ps : kPageSizes) {
    std::string id = "c04p" + std::to_string(ps);
    write_file(shared + "/" + id + ".schema.yaml",
               "schema:\n  schema_id: " + id + "\n  name: t\nmenu:\n  page_size: " + std::to_string(ps) +
                   "\nengine:\n  processors: [selector, fluid_editor]\n"
                   "  segmentors: [fallback_segmentor]\n  translators: [echo_translator]\n");
    list += "  - schema: " + id + "\n";
  }
  write_file(shared + "/default.yaml", "config_version: '1'\nschema_list:\n" + list);
  Env env;
  if (!env.start(shared, user, true)) { fprintf(stderr, "deploy failed\n"); return 3; }
  RimeApi* api = env.api;
  std::map<int, RimeSessionId> sessions;
  for (int ps : kPageSizes) {
    RimeSessionId s = api->create_session();
    std::string id = "c04p" + std::to_string(ps);
    if (!api->select_schema(s, id.c_str())) { fprintf(stderr, "select_schema %s failed\n", id.c_str()); return 4; }
    sessions[ps] = s;
  }
  // an engine of our own, only to give CharsetFilter::Apply a context to read its option from
  the<Engine> engine(Engine::Create());
  Uniquifier uniq{Ticket()};
  SingleCharFilter single{Ticket()};
  CharsetFilter charset{Ticket(engine.get(), "", "charset_filter")};
  // the real Simplifier (real OpenCC) over the two generated text dictionaries <work>/opencc/fake_{a,b}.json
  SimplifierComponent simp_component;
  the<Simplifier> simp_a, simp_b;
  {
    std::ifstream fa(work + "/opencc/fake_a.json");
    if (fa.good()) {
      engine->schema()->config()->SetString("simp_a/opencc_config", work + "/opencc/fake_a.json");
      engine->schema()->config()->SetString("simp_b/opencc_config", work + "/opencc/fake_b.json");
      engine->context()->set_option("simplification", true);
      simp_a.reset(simp_component.Create(Ticket(engine.get(), "filter", "simplifier@simp_a")));
      simp_b.reset(simp_component.Create(Ticket(engine.get(), "filter", "simplifier@simp_b")));
      if (!simp_a || !simp_b) { fprintf(stderr, "cannot create the simplifiers\n"); return 5; }
    }
  }
  auto add_filters = [&](an<Menu>& m, const std::string& fs) -> bool {
    for (char ch : fs) {
      if (ch == 'u') m->AddFilter(&uniq);
      else if (ch == 's') m->AddFilter(&single);
      else if (ch == 'x') m->AddFilter(&charset);
      else if (ch == 'a' && simp_a) m->AddFilter(simp_a.get());
      else if (ch == 'b' && simp_b) m->AddFilter(simp_b.get());
      else if (ch != '-') return false;
    }
    return true;
  };
  Builder b;
  std::string line;
  while (std::getline(std::cin, line)) {
    Tok tk;
    { std::stringstream ss(line); std::string x; while (ss >> x) tk.t.push_back(x); }
    if (tk.t.empty()) continue;
    int ps = tk.num();
    if (!sessions.count(ps)) { std::cout << "BADLINE page size\n"; continue; }
    RimeSessionId sid = sessions[ps];
    long nt = tk.num();
    auto menu = New<Menu>();
    for (long i = 0; i < nt; ++i) menu->AddTranslation(b.spec(tk));
    std::string fs = tk.next();
    if (!add_filters(menu, fs)) tk.ok = false;
    if (!tk.ok) { std::cout << "BADLINE spec\n"; continue; }
    // a composing state whose last segment carries the synthetic menu
    api->clear_composition(sid);
    api->process_key(sid, 'a', 0);
    Context* ctx = Service::instance().GetSession(sid)->context();
    if (ctx->composition().empty()) { std::cout << "BADLINE no composition\n"; continue; }
    Segment& seg = ctx->composition().back();
    seg.menu = menu;
    seg.selected_index = 0;
    seg.tags.erase("raw");
    seg.tags.insert("abc");
    long nops = tk.num();
    std::string out;
    for (long k = 0; k < nops && tk.ok; ++k) {
      std::string o = tk.next();
      std::ostringstream r;
      Segment& sg = ctx->composition().back();
      if (sg.menu != menu) { r << "MENU-REPLACED"; }
      else if (o == "p") { r << menu->Prepare(tk.num()) << " 0 0"; }
      else if (o == "c") {
        long cps = tk.num(), pno = tk.num();
        the<Page> pg(menu->CreatePage(cps, pno));
        if (!pg) r << "0 0 0";
        else {
          r << "1 " << (pg->is_last_page ? 1 : 0) << " 0";
          size_t idx = cps * pno;
          for (auto& c : pg->candidates) r << " " << item_full(idx++, c);
        }
      } else if (o == "g") {
        long i = tk.num();
        auto c = menu->GetCandidateAt(i);
        if (!c) r << "0 0 0"; else r << "1 0 0 " << item_full(i, c);
      } else if (o == "x") {
        RIME_STRUCT(RimeContext, rc);
        api->get_context(sid, &rc);
        if (!rc.menu.candidates && rc.menu.num_candidates == 0 && rc.menu.page_size == 0) r << "0 0 0";
        else {
          r << (rc.menu.page_no + 1) << " " << (rc.menu.is_last_page ? 1 : 0) << " " << rc.menu.highlighted_candidate_index;
          for (int i = 0; i < rc.menu.num_candidates; ++i)
            r << " " << item(size_t(rc.menu.page_no) * rc.menu.page_size + i, rc.menu.candidates[i].text,
                             rc.menu.candidates[i].comment ? rc.menu.candidates[i].comment : "");
        }
        api->free_context(&rc);
      } else if (o == "h" || o == "o" || o == "v") {
        long i = tk.num();
        Bool ret = o == "h" ? api->highlight_candidate(sid, i)
                 : o == "o" ? api->highlight_candidate_on_current_page(sid, i) : api->change_page(sid, i ? True : False);
        if (ctx->composition().empty()) r << "COMPOSITION-LOST";
        else r << (ret ? 1 : 0) << " 0 " << ctx->composition().back().selected_index;
      } else if (o == "i") {
        long from = tk.num(), n = tk.num();
        RimeCandidateListIterator it = {0};
        if (!api->candidate_list_from_index(sid, &it, from)) r << "0 0 0";
        else {
          r << "1 0 0";
          for (long j = 0; j < n; ++j) {
            if (!api->candidate_list_next(&it)) break;
            r << " " << item(it.index, it.candidate.text, it.candidate.comment ? it.candidate.comment : "");
          }
          api->candidate_list_end(&it);
        }
      } else if (o == "NP" || o == "PP" || o == "NC" || o == "PC" || o == "HM") {
        int key = o == "NP" ? 0xff56 : o == "PP" ? 0xff55 : o == "NC" ? 0xff54 : o == "PC" ? 0xff52 : 0xff50;
        // Home with nothing highlighted past 0 is left to the editor (it moves the caret): not a menu operation
        if (!(o == "HM" && sg.selected_index == 0)) api->process_key(sid, key, 0);
        if (ctx->composition().empty()) r << "COMPOSITION-LOST";
        else r << "1 0 " << ctx->composition().back().selected_index;
      } else { tk.ok = false; }
      out += r.str() + " ; ";
    }
    if (!tk.ok) { std::cout << "BADLINE ops\n"; continue; }
    // the full list of a fresh, untouched copy of the same menu, by the iterator
    {
      Tok t2 = tk;
      t2.p = 1;
      long n2 = t2.num();
      auto fresh = New<Menu>();
      for (long i = 0; i < n2; ++i) fresh->AddTranslation(b.spec(t2));
      add_filters(fresh, t2.next());
      out += "L";
      std::vector<std::string> seen;
      bool nodup = true;
      for (size_t i = 0;; ++i) {
        auto c = fresh->GetCandidateAt(i);
        if (!c) break;
        out += " " + cps_of(c->text());
        for (auto& s : seen) if (s == c->text()) nodup = false;
        seen.push_back(c->text());
      }
      out += std::string(" ; ND ") + (nodup ? "1" : "0");
    }
    std::cout << out << "\n";
  }
  for (auto& kv : sessions) api->destroy_session(kv.second);
  simp_a.reset();
  simp_b.reset();
  engine.reset();
  env.stop();
  return 0;
}

int api_mode(const std::string& work);

int main(int argc, char** argv) {
  if (argc < 3) { fprintf(stderr, "usage: c04 unit|api <workdir>\n"); return 2; }
  std::string mode = argv[1];
  if (mode == "unit") return unit_mode(argv[2]);
  if (mode == "api") return api_mode(argv[2]);
  return 2;
}

// ---------------------------------------------------------------------------
// api mode: black-box sessions on deployed stock schemas.
// stdin, one case per line:  <schema> <options: a=1,b=0 | -> <input keys | =text for set_input> <nops> <op>*
//   reading ops : x | h i | o i | v 0/1 | i from n | NP | PP | NC | PC
//   state ops   : C n (set_caret_pos) | KH (Home, sent only while nothing past index 0 is highlighted) | KL | KR
//                 | O name 0/1 (set_option while composing)
// A state op starts a new "epoch".  stdout per case: "PS <page size> ; E ... ; <obs> ; ..." where each reading op
// gives one observation and the initial state and every state op give
//   E <caret of the session> <caret of the reference> <n> <idx=cps:hexcomment>*
// = the whole list read by the iterator in a BRAND-NEW session brought to the same schema, options, input and
// state ops without any reading in between (the reference for that epoch).
static std::string item_hex(size_t idx, const char* text, const char* comment) {
  return std::to_string(idx) + "=" + cps_of(text ? text : "") + ":" + (comment && *comment ? hex(std::string(comment)) : "-");
}

static RimeSessionId open_session(RimeApi* api, const std::string& schema, const std::string& opts) {
  RimeSessionId s = api->create_session();
  if (!api->select_schema(s, schema.c_str())) { fprintf(stderr, "select_schema %s failed\n", schema.c_str()); exit(4); }
  if (opts != "-") {
    std::stringstream os(opts);
    std::string kv;
    while (std::getline(os, kv, ',')) {
      size_t eq = kv.find('=');
      api->set_option(s, kv.substr(0, eq).c_str(), kv.substr(eq + 1) == "1" ? True : False);
    }
  }
  return s;
}

static void type_input(RimeApi* api, RimeSessionId s, const std::string& keys) {
  api->clear_composition(s);
  if (!keys.empty() && keys[0] == '=') { api->set_input(s, keys.c_str() + 1); return; }
  for (char ch : keys) api->process_key(s, (unsigned char)ch, 0);
}

static size_t selected_of(RimeSessionId s) {
  Context* ctx = Service::instance().GetSession(s)->context();
  return ctx->composition().empty() ? 0 : ctx->composition().back().selected_index;
}

// returns false when the op was not applied (Home while something past index 0 is highlighted)
static bool apply_state_op(RimeApi* api, RimeSessionId s, const std::vector<std::string>& op) {
  if (op[0] == "C") { api->set_caret_pos(s, atol(op[1].c_str())); return true; }
  if (op[0] == "KH") { if (selected_of(s) != 0) return false; api->process_key(s, 0xff50, 0); return true; }
  if (op[0] == "KL") { api->process_key(s, 0xff51, 0); return true; }
  if (op[0] == "KR") { api->process_key(s, 0xff53, 0); return true; }
  if (op[0] == "O") { api->set_option(s, op[1].c_str(), op[2] == "1" ? True : False); return true; }
  return false;
}

static std::string reference(RimeApi* api, RimeSessionId main, const std::string& schema, const std::string& opts,
                             const std::string& keys, const std::vector<std::vector<std::string>>& state_ops) {
  RimeSessionId f = open_session(api, schema, opts);
  type_input(api, f, keys);
  for (auto& op : state_ops) apply_state_op(api, f, op);
  std::string items;
  size_t n = 0;
  RimeCandidateListIterator it = {0};
  if (api->candidate_list_begin(f, &it)) {
    while (api->candidate_list_next(&it)) {
      items += " " + item_hex(it.index, it.candidate.text, it.candidate.comment);
      ++n;
    }
    api->candidate_list_end(&it);
  }
  std::string r = "E " + std::to_string(api->get_caret_pos(main)) + " " + std::to_string(api->get_caret_pos(f)) + " " +
                  std::to_string(n) + items;
  api->destroy_session(f);
  return r;
}

int api_mode(const std::string& work) {
  Env env;
  if (!env.start(work + "/shared", work + "/user", false)) return 3;
  RimeApi* api = env.api;
  std::string line;
  while (std::getline(std::cin, line)) {
    Tok tk;
    { std::stringstream ss(line); std::string x; while (ss >> x) tk.t.push_back(x); }
    if (tk.t.empty()) continue;
    std::string schema = tk.next(), opts = tk.next(), keys = tk.next();
    RimeSessionId sid = open_session(api, schema, opts);
    type_input(api, sid, keys);
    Schema* sch = Service::instance().GetSession(sid)->schema();
    std::vector<std::vector<std::string>> state_ops;
    std::string out = "PS " + std::to_string(sch ? sch->page_size() : 5) + " ; " +
                      reference(api, sid, schema, opts, keys, state_ops) + " ; ";
    long nops = tk.num();
    for (long k = 0; k < nops && tk.ok; ++k) {
      std::string o = tk.next();
      std::ostringstream r;
      Context* ctx = Service::instance().GetSession(sid)->context();
      if (o == "C" || o == "KH" || o == "KL" || o == "KR" || o == "O") {
        std::vector<std::string> op{o};
        if (o == "C") op.push_back(tk.next());
        if (o == "O") { op.push_back(tk.next()); op.push_back(tk.next()); }
        if (apply_state_op(api, sid, op)) {
          state_ops.push_back(op);
          r << reference(api, sid, schema, opts, keys, state_ops);
        } else {
          r << "1 0 " << selected_of(sid);
        }
      } else if (o == "x") {
        RIME_STRUCT(RimeContext, rc);
        api->get_context(sid, &rc);
        if (!rc.menu.candidates && rc.menu.num_candidates == 0 && rc.menu.page_size == 0) r << "0 0 0";
        else {
          r << (rc.menu.page_no + 1) << " " << (rc.menu.is_last_page ? 1 : 0) << " " << rc.menu.highlighted_candidate_index;
          for (int i = 0; i < rc.menu.num_candidates; ++i)
            r << " " << item_hex(size_t(rc.menu.page_no) * rc.menu.page_size + i, rc.menu.candidates[i].text,
                                 rc.menu.candidates[i].comment);
        }
        api->free_context(&rc);
      } else if (o == "h" || o == "o" || o == "v") {
        long i = tk.num();
        Bool ret = o == "h" ? api->highlight_candidate(sid, i)
                 : o == "o" ? api->highlight_candidate_on_current_page(sid, i) : api->change_page(sid, i ? True : False);
        if (ctx->composition().empty()) r << "COMPOSITION-LOST";
        else r << (ret ? 1 : 0) << " 0 " << ctx->composition().back().selected_index;
      } else if (o == "i") {
        long from = tk.num(), n = tk.num();
        RimeCandidateListIterator it = {0};
        if (!api->candidate_list_from_index(sid, &it, from)) r << "0 0 0";
        else {
          r << "1 0 0";
          for (long j = 0; j < n; ++j) {
            if (!api->candidate_list_next(&it)) break;
            r << " " << item_hex(it.index, it.candidate.text, it.candidate.comment);
          }
          api->candidate_list_end(&it);
        }
      } else if (o == "NP" || o == "PP" || o == "NC" || o == "PC") {
        int key = o == "NP" ? 0xff56 : o == "PP" ? 0xff55 : o == "NC" ? 0xff54 : 0xff52;
        api->process_key(sid, key, 0);
        if (ctx->composition().empty()) r << "COMPOSITION-LOST";
        else r << "1 0 " << ctx->composition().back().selected_index;
      } else { tk.ok = false; }
      out += r.str() + (k + 1 < nops ? " ; " : "");
    }
    api->destroy_session(sid);
    if (!tk.ok) { std::cout << "BADLINE ops\n"; continue; }
    std::cout << out << "\n";
  }
  env.stop();
  return 0;
}
