
val negb : bool -> bool

type nat =
| O
| S of nat

val fst : ('a1 * 'a2) -> 'a1

val snd : ('a1 * 'a2) -> 'a2

val length : 'a1 list -> nat

val app : 'a1 list -> 'a1 list -> 'a1 list

val add : nat -> nat -> nat

val mul : nat -> nat -> nat

val sub : nat -> nat -> nat

module Nat :
 sig
  val eqb : nat -> nat -> bool

  val leb : nat -> nat -> bool

  val ltb : nat -> nat -> bool

  val max : nat -> nat -> nat

  val min : nat -> nat -> nat
 end

val rev : 'a1 list -> 'a1 list

val map : ('a1 -> 'a2) -> 'a1 list -> 'a2 list

val flat_map : ('a1 -> 'a2 list) -> 'a1 list -> 'a2 list

val fold_left : ('a1 -> 'a2 -> 'a1) -> 'a2 list -> 'a1 -> 'a1

val fold_right : ('a2 -> 'a1 -> 'a1) -> 'a1 -> 'a2 list -> 'a1

val existsb : ('a1 -> bool) -> 'a1 list -> bool

val filter : ('a1 -> bool) -> 'a1 list -> 'a1 list

val firstn : nat -> 'a1 list -> 'a1 list

val skipn : nat -> 'a1 list -> 'a1 list

val seq : nat -> nat -> nat list

type positive =
| XI of positive
| XO of positive
| XH

type n =
| N0
| Npos of positive

val kNormalSpelling : nat

val kFuzzySpelling : nat

val kAbbreviation : nat

val kCompletion : nat

val kAmbiguousSpelling : nat

val kInvalidSpelling : nat

type sym = nat

type str = sym list

val str_eqb : str -> str -> bool

type desc = { d_sid : nat; d_type : nat; d_cred : n }

type prism = (str * desc list) list

val lookup : str -> prism -> desc list option

type pmatch = nat * desc list

val common_prefix_search : prism -> str -> pmatch list

val is_prefix : str -> str -> bool

val lex_le : str -> str -> bool

val key_le : str -> str -> bool

val insert_key : (str * desc list) -> prism -> prism

val sort_keys : prism -> prism

val expand_search : prism -> str -> nat -> pmatch list

type 'v nmap = (nat * 'v) list

val nm_find : nat -> 'a1 nmap -> 'a1 option

val nm_set : nat -> 'a1 -> 'a1 nmap -> 'a1 nmap

val nm_erase : nat -> 'a1 nmap -> 'a1 nmap

type cred = { c_base : n; c_comp : nat; c_pen : nat }

type props = { p_type : nat; p_end : nat; p_cred : cred }

type smap = props nmap

type evmap = smap nmap

type emap = evmap nmap

type vmap = nat nmap

type sindex = props list nmap

type sindices = sindex nmap

type graph = { g_input_length : nat; g_interpreted_length : nat;
               g_vertices : vmap; g_edges : emap; g_indices : sindices }

val empty_graph : graph

val find_or_empty : nat -> 'a1 nmap nmap -> 'a1 nmap

type vertex = nat * nat

val vle : vertex -> vertex -> bool

val q_push : vertex -> vertex list -> vertex list

val is_delim : sym list -> sym -> bool

val delim_run : sym list -> str -> nat

val skip_delims : sym list -> str -> nat -> nat

val add_desc : bool -> bool -> nat -> (smap * nat) -> desc -> smap * nat

val process_match :
  sym list -> bool -> str -> nat -> nat -> (evmap * vertex list) -> pmatch ->
  evmap * vertex list

type fstate = { f_vertices : vmap; f_edges : emap; f_queue : vertex list;
                f_far : nat }

val forward_step : prism -> sym list -> bool -> str -> fstate -> fstate option

val forward_loop :
  prism -> sym list -> bool -> str -> nat -> fstate -> fstate option

val forward_init : fstate

type gstate = vmap * emap

val x_scan : nat -> evmap -> bool

val penalize : smap -> smap

val y_loop : nat -> nat list -> gstate -> gstate

val check_overlapped : gstate -> nat -> nat -> gstate

val prune_spellings : nat -> smap -> smap * nat

val prune_edge : nat -> nat -> nat list -> gstate -> nat -> gstate

val prune_vertex : nat -> (gstate * nat list) -> nat -> gstate * nat list

val backward : vmap -> emap -> nat -> gstate

val kExpandSearchLimit : nat

val add_completion : nat -> smap -> desc -> smap

val completion : prism -> bool -> str -> emap -> nat -> emap * nat

val index_add : sindex -> (nat * props) -> sindex

val transpose_start : sindex -> evmap -> sindex

val transpose : emap -> sindices

val build_with_fuel :
  prism -> sym list -> bool -> bool -> str -> nat -> graph option

val build_fuel : str -> nat

val build_syllable_graph :
  prism -> sym list -> bool -> bool -> str -> graph option
