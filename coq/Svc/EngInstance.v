(** Svc/EngInstance.v – the service-layer model (SvcModel.v) instantiated with
    the session-engine model of coq/Eng.

      sess     := Eng.Engine.state            (one Session: engine + context + navigator + commit text)
      op       := Eng.Api.op                  (the session functions of the C API)
      obs      := eng_obs                     (what the client reads: [Live] = Eng.Api.obs of a live
                                               session, [Dead r] = the bare return value a session
                                               function gives when GetSession(id) is null)
      pers     := unit                        (the modelled schemas neither read nor write user.yaml
                                               through these operations)
      snew _   := Eng.Api.init_state cfg
      sstep    := Eng.Api.step cfg translate
      rejected := the return value of each API function on a dead id (rime_api_impl.h:
                  `if (!session) return False;` / `return;` / `return NULL;` / `return 0;`)

    The corollaries below are instances of SvcProofs.{frame, interleave_invariance,
    dead_id_rejected}; [solo_eng] ties SvcModel.solo to Eng.Api.run_from. *)
From Coq Require Import List NArith Bool.
From RimeV Require Import Base.Bytes Svc.SvcModel Svc.SvcProofs Eng.Keys Eng.Cand Eng.Segm Eng.Ctx Eng.Engine Eng.Api.
Import ListNotations.

Inductive eng_obs :=
| Live (o : Eng.Api.obs)
| Dead (r : ret).

(** RimeProcessKey … on an id without session *)
Definition eng_rejected (o : op) : eng_obs :=
  Dead (match o with
        | OpKey _ _ | OpSetInput _ | OpSelect _ | OpSelectPage _ | OpHighlight _ | OpHighlightPage _
        | OpDelete _ | OpDeletePage _ | OpChangePage _ | OpCommit | OpGetContext | OpGetStatus => RBool false
        | OpGetCommit => RCommit None
        | OpSetCaret _ | OpClear | OpGetInput | OpGetCaret | OpSetOption _ _ | OpTick _ => RNone
        end).

Section EngSvc.
Variable cfg : config.
Variable translate : bytes -> seginfo -> list cand.

Definition eng_new (_ : unit) : state := init_state cfg.
Definition eng_sstep (x : state) (o : op) : state * eng_obs :=
  let (x', b) := Eng.Api.step cfg translate x o in (x', Live b).
Definition eng_pstep (_ : state) (_ : op) (p : unit) : unit := p.

Definition eng_svc := svc state unit.
Definition eng_step : eng_svc -> call op -> eng_svc * out eng_obs :=
  SvcModel.step state op eng_obs unit eng_new eng_sstep eng_pstep eng_rejected.
Definition eng_run : eng_svc -> list (call op) -> eng_svc * list (call op * out eng_obs) :=
  SvcModel.run state op eng_obs unit eng_new eng_sstep eng_pstep eng_rejected.

(** a session on its own is Eng.Api.run_from *)
Lemma solo_eng os : forall x,
  solo state op eng_obs eng_sstep x os
  = (fst (run_from cfg translate x os), map Live (snd (run_from cfg translate x os))).
Proof.
  induction os as [|o r IH]; intros x; [reflexivity|]. cbn [solo run_from]. unfold eng_sstep at 1.
  destruct (Eng.Api.step cfg translate x o) as [x1 b]. rewrite IH.
  destruct (run_from cfg translate x1 r) as [x2 bs]. reflexivity.
Qed.

(** a call that does not name session [j] changes no component of it *)
Lemma eng_frame (s : eng_svc) (c : call op) j :
  mentions op j c = false -> lookup state j (live _ _ (fst (eng_step s c))) = lookup state j (live _ _ s).
Proof. apply frame. Qed.

(** whatever other sessions do in between (creation and destruction included),
    session [i] observes exactly what it observes alone, and ends in the same state *)
Theorem eng_sessions_isolated (h : list (call op)) (s : eng_svc) i x st :
  lookup state i (live _ _ s) = Some (x, st) -> quiet_for op i h = true ->
  obs_on op eng_obs i (snd (eng_run s h)) = map Live (snd (run_from cfg translate x (calls_on op i h))) /\
  option_map fst (lookup state i (live _ _ (fst (eng_run s h)))) = Some (fst (run_from cfg translate x (calls_on op i h))).
Proof.
  intros Hl Hq.
  destruct (interleave_invariance state op eng_obs unit eng_new eng_sstep eng_pstep eng_rejected h s i x st Hl Hq) as (H1 & H2).
  rewrite solo_eng in H1, H2. exact (conj H1 H2).
Qed.

(** an id that names no live session gets the bare failure value from every call until it is issued again *)
Lemma eng_dead_id_rejected (h : list (call op)) (s : eng_svc) i :
  lookup state i (live _ _ s) = None -> never_created op i h = true ->
  Forall (rejected_entry op eng_obs eng_rejected i) (snd (eng_run s h)) /\
  lookup state i (live _ _ (fst (eng_run s h))) = None.
Proof. apply dead_id_rejected. Qed.

End EngSvc.
