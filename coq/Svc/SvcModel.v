(** C16 – the service layer: a map from session ids to per-session engines.

    Generic in the per-session engine: [sess] is the whole state of one
    session, [sstep] what one API call does to it and what the client observes,
    [snew] how a session is built from the user settings persisted at that
    moment ([pers]: user.yaml – saved options, last schema), [pstep] how a call
    may update those settings, [rejected] what the client observes when the id
    names no live session.  Port of Service::{CreateSession, GetSession,
    DestroySession, CleanupAllSessions} (service.cc) and of the guard every
    session function of rime_api_impl.h starts with.  Ids are addresses: the
    allocator is an input of [Create]. *)
From Coq Require Import List NArith Bool.
Import ListNotations.

Definition sid := N.            (* RimeSessionId; 0 = kInvalidSessionId *)

Section Svc.
  Variables sess op obs pers : Type.
  Variable snew : pers -> sess.
  Variable sstep : sess -> op -> sess * obs.
  Variable pstep : sess -> op -> pers -> pers.
  Variable rejected : op -> obs.

  Inductive call :=
  | Create (i : sid)            (* create_session; [i] = address the allocator hands out *)
  | Destroy (i : sid)           (* destroy_session *)
  | Find (i : sid)              (* find_session *)
  | Call (i : sid) (o : op)     (* any session function of the API *)
  | CleanupAll.                 (* cleanup_all_sessions *)

  Inductive out :=
  | OCreated (i : sid)
  | OBool (b : bool)
  | OObs (x : obs)
  | OUnit.

  (** std::map<SessionId, an<Session>>: association list without duplicate keys *)
  Definition smap := list (sid * sess).

  Fixpoint lookup (i : sid) (m : smap) : option sess :=
    match m with
    | [] => None
    | (j, x) :: m' => if N.eqb j i then Some x else lookup i m'
    end.

  Fixpoint remove (i : sid) (m : smap) : smap :=
    match m with
    | [] => []
    | (j, x) :: m' => if N.eqb j i then remove i m' else (j, x) :: remove i m'
    end.

  (** sessions_[id] = session : replaces an existing binding *)
  Definition insert (i : sid) (x : sess) (m : smap) : smap := (i, x) :: remove i m.

  Record svc := { live : smap; settings : pers }.

  Definition step (s : svc) (c : call) : svc * out :=
    match c with
    | Create i =>
        ({| live := insert i (snew (settings s)) (live s); settings := settings s |}, OCreated i)
    | Destroy i =>
        match lookup i (live s) with
        | Some _ => ({| live := remove i (live s); settings := settings s |}, OBool true)
        | None => (s, OBool false)
        end
    | Find i =>
        (s, OBool (negb (N.eqb i 0) && match lookup i (live s) with Some _ => true | None => false end))
    | Call i o =>
        match lookup i (live s) with
        | Some x =>
            let '(x', b) := sstep x o in
            ({| live := insert i x' (live s); settings := pstep x o (settings s) |}, OObs b)
        | None => (s, OObs (rejected o))
        end
    | CleanupAll => ({| live := []; settings := settings s |}, OUnit)
    end.

  (** a run returns the final state and the transcript (call, observation) *)
  Fixpoint run (s : svc) (h : list call) : svc * list (call * out) :=
    match h with
    | [] => (s, [])
    | c :: h' =>
        let '(s1, o) := step s c in
        let '(s2, t) := run s1 h' in
        (s2, (c, o) :: t)
    end.

  (** one session on its own *)
  Fixpoint solo (x : sess) (os : list op) : sess * list obs :=
    match os with
    | [] => (x, [])
    | o :: os' =>
        let '(x1, b) := sstep x o in
        let '(x2, bs) := solo x1 os' in
        (x2, b :: bs)
    end.

  Definition calls_on (i : sid) (h : list call) : list op :=
    flat_map (fun c => match c with Call j o => if N.eqb j i then [o] else [] | _ => [] end) h.

  Definition obs_on (i : sid) (t : list (call * out)) : list obs :=
    flat_map (fun co => match co with
                        | (Call j _, OObs b) => if N.eqb j i then [b] else []
                        | _ => []
                        end) t.

  (** [h] contains no life-cycle event of session [i] *)
  Definition quiet_for (i : sid) (h : list call) : bool :=
    forallb (fun c => match c with
                      | Create j | Destroy j => negb (N.eqb j i)
                      | CleanupAll => false
                      | _ => true
                      end) h.

  (** the allocator never hands out 0 or the address of a live session *)
  Fixpoint alloc_ok (m : list sid) (h : list call) : bool :=
    match h with
    | [] => true
    | Create i :: h' => negb (N.eqb i 0) && negb (existsb (N.eqb i) m) && alloc_ok (i :: m) h'
    | Destroy i :: h' => alloc_ok (filter (fun j => negb (N.eqb j i)) m) h'
    | CleanupAll :: h' => alloc_ok [] h'
    | _ :: h' => alloc_ok m h'
    end.

  Definition keys (m : smap) : list sid := map fst m.

  (** number of sessions a history leaves alive, counted from the calls alone *)
  Fixpoint expected_live (n : nat) (s : svc) (h : list call) : nat :=
    match h with
    | [] => n
    | c :: h' =>
        let s1 := fst (step s c) in
        match c with
        | Create _ => expected_live (S n) s1 h'
        | Destroy i => match lookup i (live s) with
                       | Some _ => expected_live (pred n) s1 h'
                       | None => expected_live n s1 h'
                       end
        | CleanupAll => expected_live 0 s1 h'
        | _ => expected_live n s1 h'
        end
    end.
End Svc.

Arguments Create {op} i.
Arguments Destroy {op} i.
Arguments Find {op} i.
Arguments Call {op} i o.
Arguments CleanupAll {op}.
Arguments OCreated {obs} i.
Arguments OBool {obs} b.
Arguments OObs {obs} x.
Arguments OUnit {obs}.
