(** C16 – the service layer: a map from session ids to per-session engines.

    Generic in the per-session engine: [sess] is the whole state of one
    session, [sstep] what one API call does to it and what the client observes,
    [snew] how a session is built from the user settings persisted at that
    moment ([pers]: user.yaml – saved options, last schema), [pstep] how a call
    may update those settings, [rejected] what the client observes when the id
    names no live session.  Port of Service::{CreateSession, GetSession,
    DestroySession, CleanupAllSessions} (service.cc) and of the guard every
    session function of rime_api_impl.h starts with.  Ids are addresses: the
    allocator is an input of [Create]. *)
From Coq Require Import List NArith Bool.
Import ListNotations.

Definition sid := N.            (* RimeSessionId; 0 = kInvalidSessionId *)

Section Svc.
  Variables sess op obs pers : Type.
  Variable snew : pers -> sess.
  Variable sstep : sess -> op -> sess * obs.
  Variable pstep : sess -> op -> pers -> pers.
  Variable rejected : op -> obs.

  Inductive call :=
  | Create (i : sid)            (* create_session; [i] = address the allocator hands out *)
  | Destroy (i : sid)           (* destroy_session *)
  | Find (i : sid)              (* find_session *)
  | Call (i : sid) (o : op)     (* any session function of the API *)
  | CleanupAll                  (* cleanup_all_sessions *)
  | Advance (d : N)             (* the wall clock (time(NULL), whole seconds) moves on *)
  | CleanupStale.               (* cleanup_stale_sessions: drop sessions idle for more than kLifeSpan *)

  Inductive out :=
  | OCreated (i : sid)
  | OBool (b : bool)
  | OObs (x : obs)
  | OUnit.

  (** std::map<SessionId, an<Session>>: association list without duplicate keys;
      an entry is the session and its last_active_time_ *)
  Definition entry := (sess * N)%type.
  Definition smap := list (sid * entry).
  Definition life_span : N := 300.   (* Session::kLifeSpan = 5 * 60 seconds *)

  Fixpoint lookup (i : sid) (m : smap) : option entry :=
    match m with
    | [] => None
    | (j, x) :: m' => if N.eqb j i then Some x else lookup i m'
    end.

  Fixpoint remove (i : sid) (m : smap) : smap :=
    match m with
    | [] => []
    | (j, x) :: m' => if N.eqb j i then remove i m' else (j, x) :: remove i m'
    end.

  (** sessions_[id] = session : replaces an existing binding *)
  Definition insert (i : sid) (x : entry) (m : smap) : smap := (i, x) :: remove i m.

  Record svc := { live : smap; settings : pers; now : N }.

  (** it->second->last_active_time() < now - Session::kLifeSpan *)
  Definition stale (t : N) (e : entry) : bool := N.ltb (snd e) (t - life_span).

  Definition step (s : svc) (c : call) : svc * out :=
    match c with
    | Create i =>
        ({| live := insert i (snew (settings s), now s) (live s); settings := settings s; now := now s |}, OCreated i)
    | Destroy i =>
        match lookup i (live s) with
        | Some _ => ({| live := remove i (live s); settings := settings s; now := now s |}, OBool true)
        | None => (s, OBool false)
        end
    | Find i =>
        (* session_id && GetSession(session_id): GetSession activates the session it finds *)
        if N.eqb i 0 then (s, OBool false) else
        match lookup i (live s) with
        | Some (x, _) => ({| live := insert i (x, now s) (live s); settings := settings s; now := now s |}, OBool true)
        | None => (s, OBool false)
        end
    | Call i o =>
        match lookup i (live s) with
        | Some (x, _) =>
            let '(x', b) := sstep x o in
            ({| live := insert i (x', now s) (live s); settings := pstep x o (settings s); now := now s |}, OObs b)
        | None => (s, OObs (rejected o))
        end
    | CleanupAll => ({| live := []; settings := settings s; now := now s |}, OUnit)
    | Advance d => ({| live := live s; settings := settings s; now := (now s + d)%N |}, OUnit)
    | CleanupStale =>
        ({| live := filter (fun e => negb (stale (now s) (snd e))) (live s); settings := settings s; now := now s |}, OUnit)
    end.

  (** a run returns the final state and the transcript (call, observation) *)
  Fixpoint run (s : svc) (h : list call) : svc * list (call * out) :=
    match h with
    | [] => (s, [])
    | c :: h' =>
        let '(s1, o) := step s c in
        let '(s2, t) := run s1 h' in
        (s2, (c, o) :: t)
    end.

  (** one session on its own *)
  Fixpoint solo (x : sess) (os : list op) : sess * list obs :=
    match os with
    | [] => (x, [])
    | o :: os' =>
        let '(x1, b) := sstep x o in
        let '(x2, bs) := solo x1 os' in
        (x2, b :: bs)
    end.

  Definition calls_on (i : sid) (h : list call) : list op :=
    flat_map (fun c => match c with Call j o => if N.eqb j i then [o] else [] | _ => [] end) h.

  Definition obs_on (i : sid) (t : list (call * out)) : list obs :=
    flat_map (fun co => match co with
                        | (Call j _, OObs b) => if N.eqb j i then [b] else []
                        | _ => []
                        end) t.

  (** [h] contains no life-cycle event of session [i] *)
  Definition quiet_for (i : sid) (h : list call) : bool :=
    forallb (fun c => match c with
                      | Create j | Destroy j => negb (N.eqb j i)
                      | CleanupAll | CleanupStale => false
                      | _ => true
                      end) h.

  Definition keys (m : smap) : list sid := map fst m.
End Svc.

Arguments Create {op} i.
Arguments Destroy {op} i.
Arguments Find {op} i.
Arguments Call {op} i o.
Arguments CleanupAll {op}.
Arguments Advance {op} d.
Arguments CleanupStale {op}.
Arguments OCreated {obs} i.
Arguments OBool {obs} b.
Arguments OObs {obs} x.
Arguments OUnit {obs}.
