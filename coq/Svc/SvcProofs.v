(** C16 – proofs about the service layer, for every per-session engine. *)
From Coq Require Import List NArith Bool Lia.
From RimeV Require Import Svc.SvcModel.
Import ListNotations.

Section SvcProofs.
  Variables sess op obs pers : Type.
  Variable snew : pers -> sess.
  Variable sstep : sess -> op -> sess * obs.
  Variable pstep : sess -> op -> pers -> pers.
  Variable rejected : op -> obs.

  Notation svc := (svc sess pers).
  Notation step := (step sess op obs pers snew sstep pstep rejected).
  Notation run := (run sess op obs pers snew sstep pstep rejected).
  Notation solo := (solo sess op obs sstep).
  Notation lookup := (lookup sess).
  Notation remove := (remove sess).
  Notation insert := (insert sess).
  Notation keys := (keys sess).

  (** ** map laws *)
  Lemma lookup_remove_same i m : lookup i (remove i m) = None.
  Proof.
    induction m as [|[j x] m IH]; cbn; [reflexivity|].
    destruct (N.eqb j i) eqn:E; [exact IH|]. cbn. now rewrite E.
  Qed.

  Lemma lookup_remove_other i j m : j <> i -> lookup j (remove i m) = lookup j m.
  Proof.
    intros H. induction m as [|[k x] m IH]; cbn; [reflexivity|].
    destruct (N.eqb k i) eqn:E.
    - apply N.eqb_eq in E. subst k.
      destruct (N.eqb i j) eqn:E2; [apply N.eqb_eq in E2; congruence|]. exact IH.
    - cbn. destruct (N.eqb k j); [reflexivity|exact IH].
  Qed.

  Lemma lookup_insert_same i x m : lookup i (insert i x m) = Some x.
  Proof. unfold SvcModel.insert. cbn. now rewrite N.eqb_refl. Qed.

  Lemma lookup_insert_other i j x m : j <> i -> lookup j (insert i x m) = lookup j m.
  Proof.
    intros H. unfold SvcModel.insert. cbn.
    destruct (N.eqb i j) eqn:E; [apply N.eqb_eq in E; congruence|].
    now apply lookup_remove_other.
  Qed.

  Lemma in_keys_remove k i m : In k (keys (remove i m)) -> In k (keys m) /\ k <> i.
  Proof.
    induction m as [|[j x] m IH]; cbn; [tauto|].
    destruct (N.eqb j i) eqn:E.
    - intros H. destruct (IH H). tauto.
    - cbn. intros [H|H].
      + subst. split; [now left|]. intros ->. now rewrite N.eqb_refl in E.
      + destruct (IH H). tauto.
  Qed.

  Lemma nodup_remove i m : NoDup (keys m) -> NoDup (keys (remove i m)).
  Proof.
    induction m as [|[j x] m IH]; cbn; intros H; [constructor|].
    inversion H as [|? ? Hn Hd]; subst.
    destruct (N.eqb j i); [now apply IH|]. cbn. constructor; [|now apply IH].
    intros Hin. apply in_keys_remove in Hin. tauto.
  Qed.

  Lemma nodup_insert i x m : NoDup (keys m) -> NoDup (keys (insert i x m)).
  Proof.
    intros H. unfold SvcModel.insert. cbn. constructor; [|now apply nodup_remove].
    intros Hin. apply in_keys_remove in Hin. tauto.
  Qed.

  Lemma lookup_none_not_in i m : lookup i m = None <-> ~ In i (keys m).
  Proof.
    induction m as [|[j x] m IH]; cbn; [tauto|].
    destruct (N.eqb j i) eqn:E.
    - apply N.eqb_eq in E. subst. split; [discriminate|]. intros H. exfalso. apply H. now left.
    - rewrite IH. apply N.eqb_neq in E. tauto.
  Qed.

  Lemma length_remove_in i (x : entry sess) m :
    NoDup (keys m) -> lookup i m = Some x -> S (length (remove i m)) = length m.
  Proof.
    induction m as [|[j y] m IH]; cbn; intros Hd Hl; [discriminate|].
    inversion Hd as [|? ? Hn Hd']; subst.
    destruct (N.eqb j i) eqn:E.
    - apply N.eqb_eq in E. subst j.
      assert (Hnone : lookup i m = None) by now apply lookup_none_not_in.
      clear IH. f_equal.
      (* removing an absent key changes nothing *)
      revert Hnone. clear. induction m as [|[k z] m IH]; cbn; [reflexivity|].
      destruct (N.eqb k i); [discriminate|]. intros H. cbn. f_equal. now apply IH.
    - cbn. f_equal. now apply IH.
  Qed.

  Lemma remove_absent i m : lookup i m = None -> remove i m = m.
  Proof.
    induction m as [|[k z] m IH]; cbn; [reflexivity|].
    destruct (N.eqb k i); [discriminate|]. intros H. f_equal. now apply IH.
  Qed.

  Lemma lookup_filter_keep (P : sid * entry sess -> bool) i m e :
    lookup i m = Some e -> P (i, e) = true -> NoDup (keys m) -> lookup i (filter P m) = Some e.
  Proof.
    induction m as [|[j y] m IH]; cbn; intros Hl HP Hd; [discriminate|].
    inversion Hd as [|? ? Hn Hd']; subst.
    destruct (N.eqb j i) eqn:E.
    - apply N.eqb_eq in E. subst j. inversion Hl; subst y. rewrite HP. cbn. now rewrite N.eqb_refl.
    - destruct (P (j, y)); cbn; [rewrite E|]; now apply IH.
  Qed.

  Lemma lookup_filter_drop (P : sid * entry sess -> bool) i m :
    (forall e, lookup i m = Some e -> P (i, e) = false) -> NoDup (keys m) -> lookup i (filter P m) = None.
  Proof.
    induction m as [|[j y] m IH]; cbn; intros HP Hd; [reflexivity|].
    inversion Hd as [|? ? Hn Hd']; subst.
    destruct (N.eqb j i) eqn:E.
    - apply N.eqb_eq in E. subst j. rewrite (HP y eq_refl).
      apply lookup_none_not_in. intros Hin. apply Hn.
      unfold SvcModel.keys in *. apply in_map_iff in Hin. destruct Hin as ([k z] & <- & Hin).
      apply filter_In in Hin. apply in_map_iff. exists (k, z). tauto.
    - destruct (P (j, y)); cbn; [rewrite E|]; apply IH; auto.
  Qed.

  Lemma lookup_filter_none (P : sid * entry sess -> bool) i m :
    lookup i m = None -> lookup i (filter P m) = None.
  Proof.
    induction m as [|[j y] m IH]; cbn; [reflexivity|].
    destruct (N.eqb j i) eqn:E; [discriminate|]. intros H.
    destruct (P (j, y)); cbn; [rewrite E|]; now apply IH.
  Qed.

  Lemma nodup_filter (P : sid * entry sess -> bool) m : NoDup (keys m) -> NoDup (keys (filter P m)).
  Proof.
    induction m as [|[j y] m IH]; cbn; intros H; [constructor|].
    inversion H as [|? ? Hn Hd]; subst.
    destruct (P (j, y)); cbn; [|now apply IH]. constructor; [|now apply IH].
    intros Hin. apply Hn. unfold SvcModel.keys in *. apply in_map_iff in Hin. destruct Hin as ([k z] & Hk & Hin).
    apply filter_In in Hin. apply in_map_iff. exists (k, z). tauto.
  Qed.

  (** ** frame: a call that does not name session [j] leaves it alone *)
  Definition mentions (j : sid) (c : call op) : bool :=
    match c with
    | Create i | Destroy i | Call i _ | Find i => N.eqb i j
    | Advance _ => false
    | CleanupAll | CleanupStale => true
    end.

  Theorem frame s c j :
    mentions j c = false -> lookup j (live _ _ (fst (step s c))) = lookup j (live _ _ s).
  Proof.
    destruct c as [i|i|i|i o| |d|]; cbn [mentions]; intros H; try discriminate;
      try (apply N.eqb_neq in H).
    - cbn. apply lookup_insert_other. congruence.
    - cbn. destruct (lookup i (live _ _ s)); cbn; [apply lookup_remove_other; congruence|reflexivity].
    - cbn. destruct (N.eqb i 0); [reflexivity|].
      destruct (lookup i (live _ _ s)) as [[x st]|]; [|reflexivity].
      cbn. apply lookup_insert_other. congruence.
    - cbn. destruct (lookup i (live _ _ s)) as [[x st]|]; [|reflexivity].
      destruct (sstep x o) as [x' b]. cbn. apply lookup_insert_other. congruence.
    - reflexivity.
  Qed.

  (** find_session on the session itself only refreshes its activity stamp *)
  Lemma frame_find s j :
    option_map fst (lookup j (live _ _ (fst (step s (Find j))))) = option_map fst (lookup j (live _ _ s)).
  Proof.
    cbn. destruct (N.eqb j 0); [reflexivity|].
    destruct (lookup j (live _ _ s)) as [[x st]|] eqn:E; [|cbn; now rewrite E].
    cbn. now rewrite N.eqb_refl.
  Qed.

  (** ** interleaving invariance *)
  Lemma obs_on_cons_other i c o t :
    (forall o', c <> Call i o') ->
    obs_on op obs i ((c, o) :: t) = obs_on op obs i t.
  Proof.
    intros H. unfold obs_on. cbn [flat_map].
    destruct c as [j|j|j|j o'| |d|]; try reflexivity.
    destruct o; try reflexivity.
    destruct (N.eqb j i) eqn:E; [|reflexivity].
    apply N.eqb_eq in E. subst j. exfalso. now apply (H o').
  Qed.

  Lemma calls_on_cons_other i c h :
    (forall o', c <> Call i o') -> calls_on op i (c :: h) = calls_on op i h.
  Proof.
    intros H. unfold calls_on. cbn [flat_map].
    destruct c as [j|j|j|j o'| |d|]; try reflexivity.
    destruct (N.eqb j i) eqn:E; [|reflexivity].
    apply N.eqb_eq in E. subst j. exfalso. now apply (H o').
  Qed.

  Lemma obs_on_cons_self i o' b t :
    obs_on op obs i ((Call i o', OObs b) :: t) = b :: obs_on op obs i t.
  Proof. unfold obs_on. cbn [flat_map]. now rewrite N.eqb_refl. Qed.

  Lemma calls_on_cons_self i o' h :
    calls_on op i (Call i o' :: h) = o' :: calls_on op i h.
  Proof. unfold calls_on. cbn [flat_map]. now rewrite N.eqb_refl. Qed.

  Theorem interleave_invariance h : forall s i x st,
    lookup i (live _ _ s) = Some (x, st) -> quiet_for op i h = true ->
    obs_on op obs i (snd (run s h)) = snd (solo x (calls_on op i h)) /\
    option_map fst (lookup i (live _ _ (fst (run s h)))) = Some (fst (solo x (calls_on op i h))).
  Proof.
    induction h as [|c h IH]; intros s i x st Hl Hq; [cbn; rewrite Hl; auto|].
    cbn [quiet_for forallb] in Hq. apply andb_true_iff in Hq. destruct Hq as [Hc Hq].
    fold (quiet_for op i h) in Hq.
    cbn [SvcModel.run].
    destruct (step s c) as [s1 o] eqn:Es.
    destruct (run s1 h) as [s2 t] eqn:Er.
    assert (Hs1 : s1 = fst (step s c)) by now rewrite Es.
    assert (Hdec : (exists o', c = Call i o') \/ c = Find i \/ ((forall o', c <> Call i o') /\ c <> Find i)).
    { destruct c as [j|j|j|j o'| |d|]; try (right; right; split; intros; discriminate).
      - destruct (N.eq_dec j i) as [->|Hne]; [right; now left|right; right; split; [intros; discriminate|congruence]].
      - destruct (N.eq_dec j i) as [->|Hne]; [left; now exists o'|right; right; split; [intros o'' [= ? ?]; congruence|discriminate]]. }
    destruct Hdec as [[o' ->]|[->|[Hother Hnf]]].
    - (* a call on session i itself *)
      clear Hs1. cbn in Es. rewrite Hl in Es.
      destruct (sstep x o') as [x' b] eqn:Ex. inversion Es; subst s1 o; clear Es.
      cbn [fst snd]. rewrite obs_on_cons_self, calls_on_cons_self. cbn [SvcModel.solo]. rewrite Ex.
      match type of Er with SvcModel.run _ _ _ _ _ _ _ _ ?s1 _ = _ =>
        specialize (IH s1 i x' (now _ _ s) (lookup_insert_same i (x', now _ _ s) _) Hq) end.
      rewrite Er in IH.
      destruct (solo x' (calls_on op i h)) as [x2 bs]. cbn [fst snd] in *.
      destruct IH as [IH1 IH2]. split; [now rewrite IH1|exact IH2].
    - (* find_session on session i: only the stamp moves *)
      assert (Hl1 : exists st', lookup i (live _ _ s1) = Some (x, st')).
      { pose proof (frame_find s i) as Hf. rewrite <- Hs1, Hl in Hf. cbn in Hf.
        destruct (lookup i (live _ _ s1)) as [[y st']|]; [|discriminate]. inversion Hf; subst. now exists st'. }
      destruct Hl1 as [st' Hl1].
      specialize (IH s1 i x st' Hl1 Hq). rewrite Er in IH.
      cbn [fst snd] in *. rewrite obs_on_cons_other, calls_on_cons_other by (intros; discriminate). exact IH.
    - (* anything else: frame *)
      assert (Hm : mentions i c = false).
      { destruct c as [j|j|j|j o'| |d|]; cbn in *; try reflexivity; try discriminate.
        - now apply negb_true_iff in Hc.
        - now apply negb_true_iff in Hc.
        - apply N.eqb_neq. intros ->. now apply Hnf.
        - apply N.eqb_neq. intros ->. now apply (Hother o'). }
      assert (Hl1 : lookup i (live _ _ s1) = Some (x, st)) by (rewrite Hs1, frame; assumption).
      specialize (IH s1 i x st Hl1 Hq). rewrite Er in IH.
      cbn [fst snd] in *. rewrite obs_on_cons_other, calls_on_cons_other by assumption. exact IH.
  Qed.

  (** what a session observes from its creation on is its solo run from the
      settings persisted at that moment – whatever other sessions do meanwhile *)
  Corollary created_session_is_solo s h1 i h2 :
    quiet_for op i h2 = true ->
    let s1 := fst (run s h1) in
    let s2 := fst (step s1 (Create i)) in
    obs_on op obs i (snd (run s2 h2)) = snd (solo (snew (settings _ _ s1)) (calls_on op i h2)).
  Proof.
    intros Hq s1 s2.
    apply (interleave_invariance h2 s2 i (snew (settings _ _ s1)) (now _ _ s1)); [|exact Hq].
    apply lookup_insert_same.
  Qed.

  (** ** dead or never-issued ids are rejected by every call until issued again *)
  Definition never_created (i : sid) (h : list (call op)) : bool :=
    forallb (fun c => match c with Create j => negb (N.eqb j i) | _ => true end) h.

  Definition rejected_entry (i : sid) (co : call op * out obs) : Prop :=
    match co with
    | (Call j o, r) => j = i -> r = OObs (rejected o)
    | (Find j, r) => j = i -> r = OBool false
    | (Destroy j, r) => j = i -> r = OBool false
    | _ => True
    end.

  Theorem dead_id_rejected h : forall s i,
    lookup i (live _ _ s) = None -> never_created i h = true ->
    Forall (rejected_entry i) (snd (run s h)) /\ lookup i (live _ _ (fst (run s h))) = None.
  Proof.
    induction h as [|c h IH]; intros s i Hl Hn; [cbn; auto|].
    cbn [never_created forallb] in Hn. apply andb_true_iff in Hn. destruct Hn as [Hc Hn].
    cbn [SvcModel.run].
    destruct (step s c) as [s1 o] eqn:Es. destruct (run s1 h) as [s2 t] eqn:Er.
    assert (Hl1 : lookup i (live _ _ s1) = None /\ rejected_entry i (c, o)).
    { destruct c as [j|j|j|j o'| |d|]; cbn in Es.
      - apply negb_true_iff, N.eqb_neq in Hc. inversion Es; subst; cbn [live rejected_entry]. split; [|exact I].
        rewrite lookup_insert_other by congruence. exact Hl.
      - destruct (lookup j (live _ _ s)) eqn:El; inversion Es; subst; cbn [live rejected_entry].
        + split; [|intros ->; congruence].
          destruct (N.eq_dec i j) as [->|Hne]; [apply lookup_remove_same|].
          rewrite lookup_remove_other by congruence. exact Hl.
        + split; [exact Hl|reflexivity].
      - destruct (N.eqb j 0); [inversion Es; subst; cbn [live rejected_entry]; split; [exact Hl|reflexivity]|].
        destruct (lookup j (live _ _ s)) as [[y st]|] eqn:El; inversion Es; subst; cbn [live rejected_entry].
        + split; [|intros ->; congruence].
          destruct (N.eq_dec i j) as [->|Hne]; [congruence|].
          rewrite lookup_insert_other by congruence. exact Hl.
        + split; [exact Hl|reflexivity].
      - destruct (lookup j (live _ _ s)) as [[y st]|] eqn:El.
        + destruct (sstep y o') as [y' b]. inversion Es; subst; cbn [live rejected_entry].
          split; [|intros ->; congruence].
          destruct (N.eq_dec i j) as [->|Hne]; [congruence|].
          rewrite lookup_insert_other by congruence. exact Hl.
        + inversion Es; subst; cbn [live rejected_entry]. split; [exact Hl|reflexivity].
      - inversion Es; subst; cbn [live rejected_entry]. auto.
      - inversion Es; subst; cbn [live rejected_entry]. auto.
      - inversion Es; subst; cbn [live rejected_entry]. split; [|exact I]. now apply lookup_filter_none. }
    destruct Hl1 as [Hl1 Hre].
    specialize (IH s1 i Hl1 Hn). rewrite Er in IH. cbn [fst snd] in *. destruct IH as [IH1 IH2].
    split; [constructor; assumption|exact IH2].
  Qed.

  (** ** ids of live sessions are pairwise distinct *)
  Lemma step_nodup s c : NoDup (keys (live _ _ s)) -> NoDup (keys (live _ _ (fst (step s c)))).
  Proof.
    intros Hd. destruct c as [j|j|j|j o'| |d|]; unfold SvcModel.step.
    - cbn [fst live]. now apply nodup_insert.
    - destruct (lookup j (live _ _ s)); cbn [fst live]; [now apply nodup_remove|exact Hd].
    - destruct (N.eqb j 0); [exact Hd|].
      destruct (lookup j (live _ _ s)) as [[y st]|]; cbn [fst live]; [now apply nodup_insert|exact Hd].
    - destruct (lookup j (live _ _ s)) as [[y st]|]; [|exact Hd].
      destruct (sstep y o'). cbn [fst live]. now apply nodup_insert.
    - cbn [fst live keys map]. constructor.
    - exact Hd.
    - cbn [fst live]. now apply nodup_filter.
  Qed.

  Theorem ids_distinct h : forall s,
    NoDup (keys (live _ _ s)) -> NoDup (keys (live _ _ (fst (run s h)))).
  Proof.
    induction h as [|c h IH]; intros s Hd; [exact Hd|].
    cbn [SvcModel.run]. destruct (step s c) as [s1 o] eqn:Es. destruct (run s1 h) as [s2 t] eqn:Er.
    specialize (IH s1). rewrite Er in IH. cbn [fst] in *. apply IH.
    replace s1 with (fst (step s c)) by now rewrite Es. now apply step_nodup.
  Qed.

  (** ** the stale sweep: a session idle for longer than the life span is gone
      (and, by [dead_id_rejected], its id is rejected from then on); the others stay *)
  Theorem stale_swept s i e :
    NoDup (keys (live _ _ s)) -> lookup i (live _ _ s) = Some e ->
    lookup i (live _ _ (fst (step s CleanupStale))) = (if stale sess (now _ _ s) e then None else Some e).
  Proof.
    intros Hd Hl. cbn. destruct (stale sess (now _ _ s) e) eqn:E.
    - apply lookup_filter_drop; [|exact Hd]. intros e' He'. rewrite Hl in He'. inversion He'; subst. cbn. now rewrite E.
    - apply lookup_filter_keep; [exact Hl| |exact Hd]. cbn. now rewrite E.
  Qed.

  (** any accepted call (or find) on a session makes it survive a sweep for another life span *)
  Theorem active_session_survives s i o d :
    NoDup (keys (live _ _ s)) -> lookup i (live _ _ s) <> None -> (d <= life_span)%N ->
    let s1 := fst (step s (Call i o)) in
    let s2 := fst (step s1 (Advance d)) in
    lookup i (live _ _ (fst (step s2 CleanupStale))) <> None.
  Proof.
    intros Hd Hl Hdl s1 s2.
    assert (Hl1 : exists x', lookup i (live _ _ s1) = Some (x', now _ _ s)).
    { unfold s1. cbn. destruct (lookup i (live _ _ s)) as [[x st]|]; [|congruence].
      destruct (sstep x o) as [x' b]. cbn. exists x'. now rewrite N.eqb_refl. }
    destruct Hl1 as [x' Hl1].
    assert (Hd1 : NoDup (keys (live _ _ s1))) by (apply step_nodup; exact Hd).
    assert (Hl2 : lookup i (live _ _ s2) = Some (x', now _ _ s)) by (unfold s2; cbn; exact Hl1).
    assert (Hn2 : now _ _ s2 = (now _ _ s + d)%N).
    { unfold s2, s1. cbn. destruct (lookup i (live _ _ s)) as [[x st]|]; [|reflexivity]. now destruct (sstep x o). }
    rewrite (stale_swept s2 i _ (step_nodup s1 (Advance d) Hd1) Hl2).
    unfold stale. cbn [snd]. rewrite Hn2.
    replace (N.ltb (now _ _ s) (now _ _ s + d - life_span)) with false; [discriminate|].
    symmetry. apply N.ltb_ge. unfold life_span in *. lia.
  Qed.
End SvcProofs.
