(** A concrete per-session engine for (a) non-vacuity examples and (b) the
    accept/reject correspondence of the service layer with the real library:
    a session counts the calls it accepted; an accepted call observes [true]
    together with the running count, a rejected one [false]. *)
From Coq Require Import List NArith Bool.
From RimeV Require Import Svc.SvcModel.
Import ListNotations.

Definition toy_sess := N.
Definition toy_op := N.
Definition toy_obs := (bool * N)%type.
Definition toy_new (p : N) : toy_sess := p.
Definition toy_step (x : toy_sess) (o : toy_op) : toy_sess * toy_obs := ((x + o)%N, (true, (x + o)%N)).
Definition toy_pstep (x : toy_sess) (o : toy_op) (p : N) : N := p.
Definition toy_rejected (o : toy_op) : toy_obs := (false, 0%N).

Definition toy_run (h : list (call toy_op)) : list (call toy_op * out toy_obs) :=
  snd (run toy_sess toy_op toy_obs N toy_new toy_step toy_pstep toy_rejected {| live := []; settings := 0%N; now := 1000%N |} h).
