(** C16 – how each API function that takes a session id reaches the session
    (filled in by the translator gen/session_api.py, see Gen/SessionApi.v). *)
From Coq Require Import List String Bool.
Import ListNotations.

Inductive fkind :=
| Guarded                 (* session := GetSession(id); if (!session) return <fixed>; … uses only [session] *)
| Delegates (f : string)  (* forwards the id to [f] *)
| FindLike                (* id && GetSession(id) *)
| DestroyLike             (* DestroySession(id) *)
| Unrecognised.

Definition is_guarded (k : fkind) : bool := match k with Guarded => true | _ => false end.

Definition fn_ok (fns : list (string * fkind)) (e : string * fkind) : bool :=
  match snd e with
  | Guarded | FindLike | DestroyLike => true
  | Delegates f => existsb (fun e' => String.eqb (fst e') f && is_guarded (snd e')) fns
  | Unrecognised => false
  end.

Definition count_guarded (fns : list (string * fkind)) : nat :=
  List.length (filter (fun e => match snd e with Guarded | Delegates _ => true | _ => false end) fns).
